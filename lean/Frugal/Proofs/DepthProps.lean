/-
  DepthProps.lean — C15: a message nested no deeper than 48 levels is never rejected with a
  depth error (neither by the decoder's own budget nor by the skipper's), and the recursion of
  the decoder is bounded by its budget.
-/
import Frugal.Proofs.ReaderProps
set_option linter.unusedSimpArgs false
namespace Frugal

def Outcome.isDepthErr {α} : Outcome α → Bool
  | .err .depth => true
  | _ => false

theorem isDepthErr_err {α} (k : ErrKind) : (Outcome.err k : Outcome α).isDepthErr = (k == .depth) := by
  cases k <;> rfl

theorem mapv_isDepthErr {α β} (o : Outcome α) (f : α → β) : (o.mapv f).isDepthErr = o.isDepthErr := by
  cases o with
  | ok a => rfl
  | err k => simp only [Outcome.mapv, isDepthErr_err]
  | panic p => rfl

mutual
theorem skipNeed_le : ∀ v : TVal, skipNeed v ≤ depth v + 1
  | .bool _ | .i8 _ | .double _ | .i16 _ | .i32 _ | .i64 _ | .str _ => by simp [skipNeed, depth]
  | .strct fs => by have := skipNeedFields_le fs; simp only [skipNeed, depth]; omega
  | .map _ _ es => by have := skipNeedEntries_le es; simp only [skipNeed, depth]; omega
  | .set _ xs => by have := skipNeedList_le xs; simp only [skipNeed, depth]; omega
  | .list _ xs => by have := skipNeedList_le xs; simp only [skipNeed, depth]; omega
theorem skipNeedFields_le : ∀ fs : List (Nat × TVal), skipNeedFields fs ≤ depthFields fs + 1
  | [] => by simp [skipNeedFields]
  | (_, v) :: r => by
    have h1 := skipNeed_le v
    have h2 := skipNeedFields_le r
    simp only [skipNeedFields, depthFields]
    split <;> omega
theorem skipNeedEntries_le : ∀ es : List (TVal × TVal), skipNeedEntries es ≤ depthEntries es + 1
  | [] => by simp [skipNeedEntries]
  | (a, b) :: r => by
    have h1 := skipNeed_le a
    have h2 := skipNeed_le b
    have h3 := skipNeedEntries_le r
    simp only [skipNeedEntries, depthEntries]
    split <;> split <;> omega
theorem skipNeedList_le : ∀ xs : List TVal, skipNeedList xs ≤ depthList xs + 1
  | [] => by simp [skipNeedList]
  | v :: r => by
    have h1 := skipNeed_le v
    have h2 := skipNeedList_le r
    simp only [skipNeedList, depthList]
    split <;> omega
end

theorem readFixed_noDepth (t : TT) (tv : TVal) : (readFixed t tv).isDepthErr = false := by
  cases tv <;> simp only [readFixed] <;> (repeat' split) <;> rfl

theorem readStr_noDepth (a b : Bool) (total tail : Nat) (tv : TVal) : (readStr a b total tail tv).isDepthErr = false := by
  cases tv <;> simp only [readStr] <;> (repeat' split) <;> rfl

section
variable (P : Params) (S : Schema) (total : Nat)

/-- the struct wrapper adds only the required-field verdict, never a depth error of its own -/
theorem readStruct_noDepth (f sid : Nat) (fs : List (Nat × TVal)) (tail : Nat)
    (hloop : ∀ vs : List Val, (readFields P S total f (S.get sid) fs (tail + 1) { fs := vs }).isDepthErr = false)
    (dest : Val) : (readStruct P S total (f + 1) sid fs tail dest).isDepthErr = false := by
  cases dest with
  | st vs h =>
    rw [readStruct]
    have := hloop vs
    generalize readFields P S total f (S.get sid) fs (tail + 1) { fs := vs } = o at this
    cases o with
    | ok st => simp only; split <;> rfl
    | err e => rw [isDepthErr_err] at this ⊢; exact this
    | panic p => rfl
  | _ => unfold readStruct; rfl

mutual
theorem readVal_noDepth : ∀ (tv : TVal) (fuel : Nat) (t : Ty) (tail : Nat) (dest : Val),
    2 * depth tv + 1 ≤ fuel → depth tv < P.skipDepth → (readVal P S total fuel t tv tail dest).isDepthErr = false
  | tv, 0, _, _, _, h, _ => by omega
  | tv, fuel + 1, t, tail, dest, hf, hs => by
    by_cases hfx : specFixed t.tt > 0
    · cases t with
      | base k => rw [readVal]; simp only [hfx, ↓reduceIte]; exact readFixed_noDepth _ _
      | ptr e => rw [readVal]; simp only [hfx, ↓reduceIte]; exact readFixed_noDepth _ _
      | strct s => simp [Ty.tt, specFixed] at hfx
      | map k v => simp [Ty.tt, specFixed] at hfx
      | list s e => cases s <;> simp [Ty.tt, specFixed] at hfx
    · cases t with
      | base k =>
        rw [readVal]; simp only [hfx, ↓reduceIte]
        split
        · exact readStr_noDepth _ _ _ _ _
        · rfl
      | ptr e => rw [readVal]; simp only [hfx, ↓reduceIte]; rfl
      | map kt vt =>
        cases tv with
        | map a b es =>
          rw [readVal]; simp only [hfx, ↓reduceIte]
          split
          · rfl
          · rw [mapv_isDepthErr]
            simp only [depth] at hf hs
            exact readEntries_noDepth es fuel kt vt tail [] (by omega) (by omega)
        | _ => unfold readVal; simp only [hfx, ↓reduceIte]; rfl
      | list s et =>
        cases tv with
        | list a xs =>
          rw [readVal]; simp only [hfx, ↓reduceIte]
          split
          · rfl
          · split
            · rfl
            · rw [mapv_isDepthErr]
              simp only [depth] at hf hs
              exact readList_noDepth xs fuel et tail (by omega) (by omega)
        | set a xs =>
          rw [readVal]; simp only [hfx, ↓reduceIte]
          split
          · rfl
          · split
            · rfl
            · rw [mapv_isDepthErr]
              simp only [depth] at hf hs
              exact readList_noDepth xs fuel et tail (by omega) (by omega)
        | _ => unfold readVal; simp only [hfx, ↓reduceIte]; rfl
      | strct sid =>
        cases tv with
        | strct fs =>
          rw [readVal]; simp only [hfx, ↓reduceIte]
          simp only [depth] at hf hs
          cases fuel with
          | zero => omega
          | succ f =>
            exact readStruct_noDepth P S total f sid fs tail
              (fun vs => readFields_noDepth fs f (S.get sid) (tail + 1) { fs := vs } (by omega) (by omega)) _
        | _ => unfold readVal; simp only [hfx, ↓reduceIte]; rfl
theorem readFields_noDepth : ∀ (fs : List (Nat × TVal)) (fuel : Nat) (sd : SDesc) (tail : Nat) (st : LoopSt),
    2 * depthFields fs + 1 ≤ fuel → depthFields fs < P.skipDepth →
      (readFields P S total fuel sd fs tail st).isDepthErr = false
  | [], fuel, sd, tail, st, _, _ => by rw [readFields]; rfl
  | (id, v) :: r, fuel, sd, tail, st, hf, hs => by
    simp only [depthFields] at hf hs
    have hv := readVal_noDepth v fuel
    have ih := readFields_noDepth r fuel sd tail
    rw [readFields]
    cases hk : lookupKnown sd id v.tag with
    | none =>
      simp only
      have := skipNeed_le v
      have : ¬ skipNeed v > P.skipDepth := by omega
      simp only [this, ↓reduceIte]
      exact ih _ (by omega) (by omega)
    | some p =>
      obtain ⟨ix, f⟩ := p
      simp only
      have hrf : (readField P S total fuel f v ((serFields r).length + tail) (st.fs.getD ix default)).isDepthErr = false := by
        unfold readField
        split
        · rw [mapv_isDepthErr]; exact readFixed_noDepth _ _
        · split
          · rw [mapv_isDepthErr]; exact readStr_noDepth _ _ _ _ _
          · rw [mapv_isDepthErr]; exact hv _ _ _ (by omega) (by omega)
      generalize readField P S total fuel f v ((serFields r).length + tail) (st.fs.getD ix default) = o at hrf
      cases o with
      | ok x => exact ih _ (by omega) (by omega)
      | err e => rw [isDepthErr_err] at hrf ⊢; exact hrf
      | panic p => rfl
theorem readList_noDepth : ∀ (xs : List TVal) (fuel : Nat) (et : Ty) (tail : Nat),
    2 * depthList xs + 1 ≤ fuel → depthList xs < P.skipDepth →
      (readList P S total fuel et xs tail).isDepthErr = false
  | [], fuel, et, tail, _, _ => by rw [readList]; rfl
  | x :: r, fuel, et, tail, hf, hs => by
    simp only [depthList] at hf hs
    have hx := readVal_noDepth x fuel
    have ih := readList_noDepth r fuel et tail (by omega) (by omega)
    rw [readList]
    have hsl : (readSlot P S total fuel et x ((serList r).length + tail) (zeroVal S S.length et)).isDepthErr = false := by
      unfold readSlot
      split
      · rw [mapv_isDepthErr]; exact readFixed_noDepth _ _
      · rw [mapv_isDepthErr]; exact hx _ _ _ (by omega) (by omega)
    generalize readSlot P S total fuel et x ((serList r).length + tail) (zeroVal S S.length et) = o at hsl
    cases o with
    | ok v =>
      simp only
      generalize readList P S total fuel et r tail = o2 at ih
      cases o2 with
      | ok vs => rfl
      | err e => rw [isDepthErr_err] at ih ⊢; exact ih
      | panic p => rfl
    | err e => rw [isDepthErr_err] at hsl ⊢; exact hsl
    | panic p => rfl
theorem readEntries_noDepth : ∀ (es : List (TVal × TVal)) (fuel : Nat) (kt vt : Ty) (tail : Nat) (acc : List (Val × Val)),
    2 * depthEntries es + 1 ≤ fuel → depthEntries es < P.skipDepth →
      (readEntries P S total fuel kt vt es tail acc).isDepthErr = false
  | [], fuel, kt, vt, tail, acc, _, _ => by rw [readEntries]; rfl
  | (a, b) :: r, fuel, kt, vt, tail, acc, hf, hs => by
    simp only [depthEntries] at hf hs
    have ha := readVal_noDepth a fuel
    have hb := readVal_noDepth b fuel
    have ih := readEntries_noDepth r fuel kt vt tail
    rw [readEntries]
    have hsa : (readSlot P S total fuel kt a ((ser b).length + ((serEntries r).length + tail)) (zeroVal S S.length kt)).isDepthErr = false := by
      unfold readSlot
      split
      · rw [mapv_isDepthErr]; exact readFixed_noDepth _ _
      · rw [mapv_isDepthErr]; exact ha _ _ _ (by omega) (by omega)
    have hsb : (readSlot P S total fuel vt b ((serEntries r).length + tail) (zeroVal S S.length vt)).isDepthErr = false := by
      unfold readSlot
      split
      · rw [mapv_isDepthErr]; exact readFixed_noDepth _ _
      · rw [mapv_isDepthErr]; exact hb _ _ _ (by omega) (by omega)
    generalize readSlot P S total fuel kt a ((ser b).length + ((serEntries r).length + tail)) (zeroVal S S.length kt) = o at hsa
    cases o with
    | ok k =>
      simp only
      generalize readSlot P S total fuel vt b ((serEntries r).length + tail) (zeroVal S S.length vt) = o2 at hsb
      cases o2 with
      | ok v => exact ih _ (by omega) (by omega)
      | err e => rw [isDepthErr_err] at hsb ⊢; exact hsb
      | panic p => rfl
    | err e => rw [isDepthErr_err] at hsa ⊢; exact hsa
    | panic p => rfl
end
end

/-- C15: a message nested no deeper than 48 levels is never rejected with a depth error. -/
theorem shallow_accepted (P : Params) (S : Schema) (sid : Nat) (fs : List (Nat × TVal)) (trailing : Nat) (dest : Val)
    (hd : depth (.strct fs) ≤ 48) (hmax : 96 ≤ P.maxDepth) (hskip : P.skipDepth = 64) :
    (readMessage P S sid fs trailing dest).isDepthErr = false := by
  unfold readMessage
  simp only [depth] at hd
  generalize (ser (.strct fs)).length + trailing = total
  cases hm : P.maxDepth with
  | zero => omega
  | succ f =>
    exact readStruct_noDepth P S total f sid fs trailing
      (fun vs => readFields_noDepth P S total fs f (S.get sid) (trailing + 1) { fs := vs } (by omega) (by omega)) dest

end Frugal
