/-
  WireRT.lean — the reference parser inverts the serialiser: `ser` is injective on well-formed
  values ("the bytes denote exactly the value") and a parse consumes exactly the encoding.
-/
import Frugal.Wire
namespace Frugal

theorem takeBytes_append (s r : Bytes) : takeBytes s.length (s ++ r) = some (s, r) := by
  simp [takeBytes]

theorem rd8_u8_cons (n : Nat) (r : Bytes) (h : n < 256) : rd8 (u8 n :: r) = some (n, r) := rd8_u8 n r h

theorem isCode_lt {n : Nat} (h : codeOK n = true) : n < 128 := by
  simpa [codeOK] using h

theorem isCode_codeOK {n : Nat} (h : isCode n = true) : codeOK n = true := by
  simp only [isCode, Bool.or_eq_true, beq_iff_eq] at h
  simp only [codeOK, decide_eq_true_eq]
  omega

theorem tag_lt (v : TVal) : v.tag < 256 := by cases v <;> simp [TVal.tag]
theorem tag_pos (v : TVal) : v.tag ≠ 0 := by cases v <;> simp [TVal.tag]

theorem serFields_len : ∀ fs : List (Nat × TVal), fs.length ≤ (serFields fs).length
  | [] => by simp [serFields]
  | (id, v) :: r => by
    have := serFields_len r
    simp only [serFields, List.length_cons, List.length_append, be16_length]
    omega

mutual
theorem parse_ser : ∀ (v : TVal) (fuel : Nat) (r : Bytes), wf v = true → depth v < fuel →
    parse fuel v.tag (ser v ++ r) = some (v, r)
  | .bool b, fuel + 1, r, hw, _ => by
    simp only [wf, decide_eq_true_eq] at hw
    simp [parse, TVal.tag, ser, rd8_u8 b r hw]
  | .i8 b, fuel + 1, r, hw, _ => by
    simp only [wf, decide_eq_true_eq] at hw
    simp [parse, TVal.tag, ser, rd8_u8 b r hw]
  | .double n, fuel + 1, r, hw, _ => by
    simp only [wf, decide_eq_true_eq] at hw
    simp [parse, TVal.tag, ser, rd64_be64 n r hw]
  | .i16 n, fuel + 1, r, hw, _ => by
    simp only [wf, decide_eq_true_eq] at hw
    simp [parse, TVal.tag, ser, rd16_be16 n r hw]
  | .i32 n, fuel + 1, r, hw, _ => by
    simp only [wf, decide_eq_true_eq] at hw
    simp [parse, TVal.tag, ser, rd32_be32 n r hw]
  | .i64 n, fuel + 1, r, hw, _ => by
    simp only [wf, decide_eq_true_eq] at hw
    simp [parse, TVal.tag, ser, rd64_be64 n r hw]
  | .str s, fuel + 1, r, hw, _ => by
    simp only [wf, decide_eq_true_eq] at hw
    have h32 : s.length < 4294967296 := by omega
    have hn : ¬ s.length ≥ 2147483648 := by omega
    simp only [parse, TVal.tag, ser, List.append_assoc, rd32_be32 s.length (s ++ r) h32]
    simp [hn, takeBytes_append]
  | .strct fs, fuel + 1, r, hw, hd => by
    simp only [wf] at hw
    simp only [depth] at hd
    have hl := serFields_len fs
    have := parseFields_ser fs fuel ((serFields fs ++ 0 :: r).length + 1) r hw (by omega)
      (by simp only [List.length_append]; omega)
    simp only [parse, TVal.tag, ser, List.append_assoc, List.singleton_append]
    simp only [List.length_append, List.length_cons] at this
    simp [this]
  | .map kt vt es, fuel + 1, r, hw, hd => by
    simp only [wf, Bool.and_eq_true, decide_eq_true_eq] at hw
    obtain ⟨⟨⟨hk, hv⟩, hn⟩, he⟩ := hw
    have hk := isCode_lt hk
    have hv := isCode_lt hv
    have hk : kt < 256 := by omega
    have hv : vt < 256 := by omega
    simp only [depth] at hd
    have h32 : es.length < 4294967296 := by omega
    have hn' : ¬ es.length ≥ 2147483648 := by omega
    have := parseEntries_ser kt vt es fuel r he (by omega)
    simp only [parse, TVal.tag, ser, List.cons_append, List.append_assoc, rd8_u8 kt _ hk, rd8_u8 vt _ hv,
      rd32_be32 es.length _ h32]
    simp [hn', this]
  | .set et xs, fuel + 1, r, hw, hd => by
    simp only [wf, Bool.and_eq_true, decide_eq_true_eq] at hw
    obtain ⟨⟨he, hn⟩, hl⟩ := hw
    have he := isCode_lt he
    have he : et < 256 := by omega
    simp only [depth] at hd
    have h32 : xs.length < 4294967296 := by omega
    have hn' : ¬ xs.length ≥ 2147483648 := by omega
    have := parseList_ser et xs fuel r hl (by omega)
    simp only [parse, TVal.tag, ser, List.cons_append, List.append_assoc, rd8_u8 et _ he, rd32_be32 xs.length _ h32]
    simp [hn', this]
  | .list et xs, fuel + 1, r, hw, hd => by
    simp only [wf, Bool.and_eq_true, decide_eq_true_eq] at hw
    obtain ⟨⟨he, hn⟩, hl⟩ := hw
    have he := isCode_lt he
    have he : et < 256 := by omega
    simp only [depth] at hd
    have h32 : xs.length < 4294967296 := by omega
    have hn' : ¬ xs.length ≥ 2147483648 := by omega
    have := parseList_ser et xs fuel r hl (by omega)
    simp only [parse, TVal.tag, ser, List.cons_append, List.append_assoc, rd8_u8 et _ he, rd32_be32 xs.length _ h32]
    simp [hn', this]
theorem parseFields_ser : ∀ (fs : List (Nat × TVal)) (fuel cnt : Nat) (r : Bytes), wfFields fs = true →
    depthFields fs < fuel → fs.length < cnt →
    parseFields (parse fuel) cnt (serFields fs ++ 0 :: r) = some (fs, r)
  | [], fuel, cnt + 1, r, _, _, _ => by
    simp [serFields, parseFields, rd8]
  | (id, v) :: t, fuel, cnt + 1, r, hw, hd, hc => by
    simp only [wfFields, Bool.and_eq_true, decide_eq_true_eq] at hw
    obtain ⟨⟨hid, hv⟩, ht⟩ := hw
    simp only [depthFields] at hd
    simp only [List.length_cons] at hc
    have h1 := parse_ser v fuel (serFields t ++ 0 :: r) hv (by omega)
    have h2 := parseFields_ser t fuel cnt r ht (by omega) (by omega)
    simp only [serFields, List.cons_append, List.append_assoc, parseFields, rd8_u8 v.tag _ (tag_lt v)]
    simp only [tag_pos v, ↓reduceIte, rd16_be16 id _ hid]
    simp [h1, h2]
theorem parseEntries_ser : ∀ (kt vt : Nat) (es : List (TVal × TVal)) (fuel : Nat) (r : Bytes),
    wfEntries kt vt es = true → depthEntries es < fuel →
    parseEntries (parse fuel kt) (parse fuel vt) es.length (serEntries es ++ r) = some (es, r)
  | _, _, [], _, r, _, _ => by simp [serEntries, parseEntries]
  | kt, vt, (k, v) :: t, fuel, r, hw, hd => by
    simp only [wfEntries, Bool.and_eq_true, beq_iff_eq] at hw
    obtain ⟨⟨⟨⟨hkt, hvt⟩, hk⟩, hv⟩, ht⟩ := hw
    simp only [depthEntries] at hd
    have h1 := parse_ser k fuel (ser v ++ serEntries t ++ r) hk (by omega)
    have h2 := parse_ser v fuel (serEntries t ++ r) hv (by omega)
    have h3 := parseEntries_ser kt vt t fuel r ht (by omega)
    rw [hkt] at h1; rw [hvt] at h2
    simp only [List.append_assoc] at h1 h2
    simp [serEntries, parseEntries, h1, h2, h3]
theorem parseList_ser : ∀ (et : Nat) (xs : List TVal) (fuel : Nat) (r : Bytes),
    wfList et xs = true → depthList xs < fuel →
    parseList (parse fuel et) xs.length (serList xs ++ r) = some (xs, r)
  | _, [], _, r, _, _ => by simp [serList, parseList]
  | et, x :: t, fuel, r, hw, hd => by
    simp only [wfList, Bool.and_eq_true, beq_iff_eq] at hw
    obtain ⟨⟨hxt, hx⟩, ht⟩ := hw
    simp only [depthList] at hd
    have h1 := parse_ser x fuel (serList t ++ r) hx (by omega)
    have h2 := parseList_ser et t fuel r ht (by omega)
    rw [hxt] at h1
    simp [serList, parseList, h1, h2]
end

/-- `ser` is injective on well-formed values: equal bytes denote equal values. -/
theorem ser_injective (v w : TVal) (hv : wf v = true) (hw : wf w = true) (ht : v.tag = w.tag)
    (e : ser v = ser w) : v = w := by
  have a := parse_ser v (depth v + depth w + 1) [] hv (by omega)
  have b := parse_ser w (depth v + depth w + 1) [] hw (by omega)
  rw [ht, e] at a
  rw [a] at b
  exact (Prod.mk.inj (Option.some.inj b)).1

end Frugal
