// gentypes: VERIF_SEED -> a universe of Go struct declarations (systematic part enumerated
// completely + seeded random part) emitted twice: as Go source compiled into the harness
// (universe/universe_gen.go) and as `struct`/`field` lines for the Lean driver (universe.txt).
package main

import (
	"encoding/hex"
	"flag"
	"fmt"
	"math"
	"math/rand"
	"os"
	"path/filepath"
	"sort"
	"strconv"
	"strings"
)

type Ty struct {
	K     string // prim ptr slice arr map struct
	Kind  string // Go kind name for prim (bool int8 ... ) or chan/func/iface/unsafeptr
	Name  string // Go type name ("" unnamed); builtin prims: == Kind
	Elem  *Ty
	Key   *Ty
	Sid   int
	N     int
	IsSet bool   // for slices: annotate as set
	Ann   string // override annotation for this node ("" = canonical)
	Named string // a declared container type (AttrsT, IDsT) standing for this node in Go source
}

func prim(kind string) *Ty        { return &Ty{K: "prim", Kind: kind, Name: kind} }
func named(kind, name string) *Ty { return &Ty{K: "prim", Kind: kind, Name: name} }
func ptr(e *Ty) *Ty               { return &Ty{K: "ptr", Elem: e} }
func list(e *Ty) *Ty              { return &Ty{K: "slice", Elem: e} }
func set(e *Ty) *Ty               { return &Ty{K: "slice", Elem: e, IsSet: true} }
func mapOf(k, v *Ty) *Ty          { return &Ty{K: "map", Key: k, Elem: v} }
func arr(n int, e *Ty) *Ty        { return &Ty{K: "arr", N: n, Elem: e} }
func binary() *Ty                 { return list(prim("uint8")) }

type Field struct {
	Name      string
	Ty        *Ty
	Tag       string // raw struct tag
	ID        int    // -1 when the field is not part of the schema
	Dflt      string // Go expression assigned in InitDefault ("" none)
	DfltVal   string // same value in protocol syntax
	Embedded  bool
	InSchema  bool
}

type Struct struct {
	Sid     int
	Name    string
	Fields  []*Field
	HasInit bool
	Accept  bool
	Group   string
	Writer  int
	Anonymous bool
	Boom    bool // InitDefault panics while universe.Boom is set
	Local   bool // declared inside a function of its own, together with a local `type Label string`
}

var structs []*Struct
var rng *rand.Rand

func newStruct(group string) *Struct {
	s := &Struct{Sid: len(structs), Accept: true, Group: group, Writer: -1}
	s.Name = fmt.Sprintf("S%d", s.Sid)
	structs = append(structs, s)
	return s
}

func sref(s *Struct) *Ty { return &Ty{K: "struct", Sid: s.Sid, Name: s.Name} }

func (t *Ty) GoExpr() string {
	if t.Named != "" {
		return t.Named
	}
	switch t.K {
	case "prim":
		switch t.Kind {
		case "chan":
			return "chan int"
		case "func":
			return "func()"
		case "iface":
			return "interface{}"
		case "unsafeptr":
			return "unsafe.Pointer"
		}
		return t.Name
	case "ptr":
		return "*" + t.Elem.GoExpr()
	case "slice":
		return "[]" + t.Elem.GoExpr()
	case "arr":
		return fmt.Sprintf("[%d]%s", t.N, t.Elem.GoExpr())
	case "map":
		return "map[" + t.Key.GoExpr() + "]" + t.Elem.GoExpr()
	case "struct":
		if structs[t.Sid].Anonymous {
			return structs[t.Sid].literal()
		}
		return t.Name
	}
	panic("bad ty")
}

// literal: the struct type written out (anonymous struct types)
func (s *Struct) literal() string {
	var b strings.Builder
	b.WriteString("struct {")
	for i, f := range s.Fields {
		if i > 0 {
			b.WriteString("; ")
		}
		fmt.Fprintf(&b, "%s %s", f.Name, f.Ty.GoExpr())
		if f.Tag != "" {
			fmt.Fprintf(&b, " `%s`", f.Tag)
		}
	}
	b.WriteString("}")
	return b.String()
}

func (t *Ty) Proto() string {
	switch t.K {
	case "prim":
		if t.Name == t.Kind {
			return t.Kind
		}
		return "N:" + t.Kind + ":" + t.Name
	case "ptr":
		return "P(" + t.Elem.Proto() + ")"
	case "slice":
		return "L(" + t.Elem.Proto() + ")"
	case "arr":
		return fmt.Sprintf("A(%d,%s)", t.N, t.Elem.Proto())
	case "map":
		return "M(" + t.Key.Proto() + "," + t.Elem.Proto() + ")"
	case "struct":
		if structs[t.Sid].Anonymous {
			return fmt.Sprintf("S:%d:", t.Sid)
		}
		return fmt.Sprintf("S:%d:%s", t.Sid, t.Name)
	}
	panic("bad ty")
}

// canonical annotation of a (valid) type
func (t *Ty) Annot() string {
	if t.Ann != "" {
		return t.Ann
	}
	switch t.K {
	case "prim":
		switch t.Kind {
		case "bool":
			return "bool"
		case "int8":
			return "i8"
		case "int16":
			return "i16"
		case "int32":
			return "i32"
		case "int64", "int":
			if t.Name != "int64" && t.Name != "int" {
				return t.Name // enum
			}
			return "i64"
		case "float64":
			return "double"
		case "string":
			return "string"
		}
		return "i32" // unsupported kinds: some annotation
	case "ptr":
		return t.Elem.Annot()
	case "slice":
		if t.Elem.K == "prim" && t.Elem.Name == "uint8" {
			return "binary"
		}
		if t.IsSet {
			return "set<" + t.Elem.Annot() + ">"
		}
		return "list<" + t.Elem.Annot() + ">"
	case "map":
		return "map<" + t.Key.Annot() + ":" + t.Elem.Annot() + ">"
	case "struct":
		return t.Name
	case "arr":
		return "list<" + t.Elem.Annot() + ">"
	}
	panic("bad ty")
}

func (s *Struct) add(name string, ty *Ty, id int, req string, opts ...string) *Field {
	tag := fmt.Sprintf("%d,%s,%s", id, req, ty.Annot())
	for _, o := range opts {
		tag += "," + o
	}
	f := &Field{Name: name, Ty: ty, Tag: `frugal:"` + tag + `"`, ID: id, InSchema: true}
	s.Fields = append(s.Fields, f)
	return f
}

func (s *Struct) addRaw(name string, ty *Ty, rawTag string, id int, inSchema bool) *Field {
	f := &Field{Name: name, Ty: ty, Tag: rawTag, ID: id, InSchema: inSchema}
	s.Fields = append(s.Fields, f)
	return f
}

func (s *Struct) nextName() string { return fmt.Sprintf("F%d", len(s.Fields)) }

func (s *Struct) addHolder() {
	s.Fields = append(s.Fields, &Field{Name: "_unknownFields", Ty: binary(), ID: -1})
}

// ---------- values for defaults ----------

func u(bits uint64) string { return "n" + strconv.FormatUint(bits, 10) }

// dfltFor returns (Go expr, proto value) for a default of the given simple type; ok=false if none
func dfltFor(t *Ty, zero bool) (string, string, bool) {
	if t.K == "slice" && t.Elem.K == "prim" && t.Elem.Name == "uint8" {
		if zero {
			return `[]byte{}`, "b", true
		}
		return `[]byte("dv")`, "b6476", true
	}
	if t.K != "prim" {
		return "", "", false
	}
	cast := func(v string) string {
		if t.Name != t.Kind {
			return t.Name + "(" + v + ")"
		}
		return v
	}
	switch t.Kind {
	case "bool":
		if zero {
			return "false", "n0", true
		}
		return "true", "n1", true
	case "int8":
		if zero {
			return cast("0"), "n0", true
		}
		return cast("-3"), u(uint64(uint8(253))), true
	case "int16":
		if zero {
			return cast("0"), "n0", true
		}
		return cast("-300"), u(uint64(uint16(65236))), true
	case "int32":
		if zero {
			return cast("0"), "n0", true
		}
		return cast("70000"), "n70000", true
	case "int64", "int":
		if zero {
			return cast("0"), "n0", true
		}
		return cast("-2"), u(math.MaxUint64 - 1), true
	case "float64":
		if zero {
			return cast("0"), "n0", true
		}
		return cast("1.5"), u(math.Float64bits(1.5)), true
	case "string":
		if zero {
			return cast(`""`), "s", true
		}
		return cast(`"dflt"`), "s" + hex.EncodeToString([]byte("dflt")), true
	}
	return "", "", false
}

// ---------- systematic groups ----------

var enumTy = named("int64", "E1")

func scalarTys() []*Ty {
	return []*Ty{prim("bool"), prim("int8"), prim("int16"), prim("int32"), prim("int64"), prim("int"),
		prim("float64"), enumTy, prim("string"), binary()}
}

var leaf *Struct      // small struct used as element / value
var leafInit *Struct  // small struct with InitDefault
var leafReq *Struct   // small struct with a required field
var leafHolder *Struct

func groupLeaves() {
	leaf = newStruct("leaf")
	leaf.add("A", prim("int64"), 1, "default")
	leaf.add("B", prim("string"), 2, "default")
	leaf.add("C", ptr(prim("int32")), 3, "optional")

	leafInit = newStruct("leaf")
	leafInit.HasInit = true
	f := leafInit.add("A", prim("int32"), 1, "optional")
	f.Dflt, f.DfltVal, _ = dfltFor(f.Ty, false)
	f = leafInit.add("B", prim("string"), 2, "optional")
	f.Dflt, f.DfltVal, _ = dfltFor(f.Ty, false)
	leafInit.add("C", prim("float64"), 3, "optional")
	f = leafInit.add("D", prim("int16"), 4, "default")
	f.Dflt, f.DfltVal, _ = dfltFor(f.Ty, false)

	leafReq = newStruct("leaf")
	leafReq.add("R", prim("int32"), 1, "required")
	leafReq.add("O", prim("string"), 2, "optional")
	leafReq.add("R2", prim("string"), 70, "required")

	leafHolder = newStruct("leaf")
	leafHolder.add("A", prim("int32"), 1, "default")
	leafHolder.add("B", prim("string"), 5, "optional")
	leafHolder.addHolder()
}

func groupScalars() {
	for _, req := range []string{"default", "required", "optional"} {
		s := newStruct("scalars")
		for i, t := range scalarTys() {
			s.add(s.nextName(), t, i+1, req)
		}
	}
	// optional pointers
	s := newStruct("scalars")
	for i, t := range scalarTys() {
		if t.K == "slice" {
			continue
		}
		s.add(s.nextName(), ptr(t), i+1, "optional")
	}
	// with InitDefault: defaults equal to zero / different, optional and default requiredness
	for _, zero := range []bool{true, false} {
		for _, req := range []string{"optional", "default"} {
			s := newStruct("defaults")
			s.HasInit = true
			for i, t := range scalarTys() {
				f := s.add(s.nextName(), t, i+1, req)
				if i%3 != 2 { // leave every third field unassigned by InitDefault
					f.Dflt, f.DfltVal, _ = dfltFor(t, zero)
				}
			}
			// NaN and -0.0 defaults
			f := s.add(s.nextName(), prim("float64"), 20, req)
			f.Dflt, f.DfltVal = "math.Float64frombits(0x7ff8000000000001)", u(0x7ff8000000000001)
			f = s.add(s.nextName(), prim("float64"), 21, req)
			f.Dflt, f.DfltVal = "math.Copysign(0, -1)", u(0x8000000000000000)
			// containers / pointers in a struct with defaults
			s.add(s.nextName(), list(prim("int32")), 22, req)
			s.add(s.nextName(), ptr(sref(leafInit)), 23, "optional")
			s.add(s.nextName(), sref(leafInit), 24, req)
			s.add(s.nextName(), list(ptr(sref(leafInit))), 25, req)
			s.add(s.nextName(), mapOf(prim("int32"), sref(leafInit)), 26, req)
			s.add(s.nextName(), mapOf(prim("string"), ptr(sref(leafInit))), 27, req)
			s.add(s.nextName(), list(sref(leafInit)), 28, req)
		}
	}
}

// a struct whose only declared defaults compare equal to zero (-0.0, empty non-nil binary): its
// initialiser still has to run for nested instances
func groupZeroishDefaults() {
	z := newStruct("defaults")
	z.HasInit = true
	f := z.add("D", prim("float64"), 1, "optional")
	f.Dflt, f.DfltVal = "math.Copysign(0, -1)", u(0x8000000000000000)
	f = z.add("B", binary(), 2, "optional")
	f.Dflt, f.DfltVal, _ = dfltFor(f.Ty, true)
	z.add("N", prim("int32"), 3, "default")
	o := newStruct("defaults")
	o.add("P", ptr(sref(z)), 1, "optional")
	o.add("V", sref(z), 2, "default")
	o.add("L", list(ptr(sref(z))), 3, "default")
	o.add("M", mapOf(prim("int32"), sref(z)), 4, "default")
	o.add("LV", list(sref(z)), 5, "default")
}

// optional pointer fields to which the initialiser assigns a non-nil pointer (a default through a
// pointer): such a field is written whenever it is non-nil, whatever it points to
func groupPointerDefaults() {
	z := newStruct("defaults")
	z.HasInit = true
	f := z.add("A", ptr(prim("string")), 1, "optional")
	f.Dflt, f.DfltVal = `func() *string { s := ""; return &s }()`, "P(s)"
	z.add("B", ptr(prim("string")), 2, "optional")
	f = z.add("C", ptr(prim("bool")), 3, "optional")
	f.Dflt, f.DfltVal = `func() *bool { b := true; return &b }()`, "P(n1)"
	z.add("D", ptr(prim("int64")), 4, "optional")
	f = z.add("E", ptr(prim("int8")), 5, "optional")
	f.Dflt, f.DfltVal = `func() *int8 { b := int8(0); return &b }()`, "P(n0)"
	f = z.add("F", ptr(binary()), 6, "optional")
	f.Dflt, f.DfltVal = `func() *[]byte { b := []byte{}; return &b }()`, "P(b)"
	z.add("G", ptr(prim("string")), 7, "optional")
	o := newStruct("defaults")
	o.add("P", ptr(sref(z)), 1, "optional")
	o.add("V", sref(z), 2, "default")
	o.add("L", list(ptr(sref(z))), 3, "default")
}

func elemForms() []*Ty {
	return []*Ty{prim("bool"), prim("int8"), prim("int16"), prim("int32"), prim("int64"), prim("float64"),
		enumTy, prim("string"), binary(), ptr(sref(leaf)), sref(leaf),
		mapOf(prim("int32"), prim("string")), set(prim("int64")), list(prim("string")),
		ptr(sref(leafInit)), sref(leafReq), list(list(prim("int16")))}
}

func groupLists() {
	for _, req := range []string{"default", "optional"} {
		for _, mk := range []func(*Ty) *Ty{list, set} {
			s := newStruct("lists")
			for i, e := range elemForms() {
				s.add(s.nextName(), mk(e), i+1, req)
			}
		}
	}
}

func keyForms() []*Ty {
	return []*Ty{prim("bool"), prim("int8"), prim("int16"), prim("int32"), prim("int64"), prim("float64"),
		enumTy, prim("string"), ptr(sref(leaf))}
}

func valueForms() []*Ty {
	return []*Ty{prim("bool"), prim("int8"), prim("int16"), prim("int32"), prim("int64"), prim("float64"),
		enumTy, prim("string"), binary(), ptr(sref(leaf)), sref(leaf),
		mapOf(prim("string"), prim("int32")), set(prim("int32")), list(prim("string"))}
}

func groupMaps() {
	for _, k := range keyForms() {
		s := newStruct("maps")
		for i, v := range valueForms() {
			req := "default"
			if i%4 == 3 {
				req = "optional"
			}
			s.add(s.nextName(), mapOf(k, v), i+1, req)
		}
	}
	// map values that are by-value structs with optional fields / defaults / required
	s := newStruct("maps")
	s.add("M1", mapOf(prim("int32"), sref(leafInit)), 1, "default")
	s.add("M2", mapOf(prim("string"), sref(leafReq)), 2, "default")
	s.add("M3", mapOf(prim("int64"), sref(leafHolder)), 3, "default")
	s.add("M4", mapOf(prim("int32"), mapOf(prim("int32"), sref(leaf))), 4, "default")
}

func groupRecursive() {
	n := newStruct("recursive")
	n.add("V", prim("int32"), 1, "default")
	n.add("Next", ptr(sref(n)), 2, "optional")
	n.add("Kids", list(ptr(sref(n))), 3, "optional")
	n.add("M", mapOf(prim("string"), ptr(sref(n))), 4, "optional")
	n.add("MV", mapOf(prim("string"), sref(n)), 5, "optional")
	n.add("LL", list(list(ptr(sref(n)))), 6, "optional")
	n.add("KM", mapOf(ptr(sref(n)), prim("int32")), 7, "optional")
	n.add("S", set(ptr(sref(n))), 8, "optional")
	// mutual recursion A <-> B, with a holder on one side
	a := newStruct("recursive")
	b := newStruct("recursive")
	a.add("X", prim("string"), 1, "default")
	a.add("B", ptr(sref(b)), 2, "optional")
	a.add("Bs", list(sref(b)), 3, "default")
	b.add("Y", prim("int64"), 1, "default")
	b.add("A", ptr(sref(a)), 2, "optional")
	b.add("AM", mapOf(prim("int32"), ptr(sref(a))), 3, "optional")
	b.addHolder()
	// required inside recursion
	r := newStruct("recursive")
	r.add("Id", prim("int32"), 1, "required")
	r.add("Next", ptr(sref(r)), 64, "optional")
	r.add("Name", prim("string"), 128, "required")
	r.add("Kids", list(ptr(sref(r))), 3, "optional")
}

func groupIDs() {
	ids := []int{0, 1, 63, 64, 65, 127, 128, 255, 256, 4095, 32767, 32768, 65534, 65535}
	for _, req := range []string{"default", "required", "optional"} {
		s := newStruct("ids")
		for i, id := range ids {
			var t *Ty
			switch i % 3 {
			case 0:
				t = prim("int32")
			case 1:
				t = prim("string")
			default:
				t = list(prim("int16"))
			}
			s.add(s.nextName(), t, id, req)
		}
	}
	// required at word boundaries mixed with optional ones on the same ids in another type
	s := newStruct("ids")
	s.add("A", prim("int32"), 64, "required")
	s.add("B", prim("int32"), 128, "required")
	s.add("C", prim("string"), 3, "optional")
	s2 := newStruct("ids")
	s2.add("A", prim("int32"), 64, "optional")
	s2.add("B", prim("int32"), 128, "default")
	s2.add("C", prim("string"), 3, "required")
	s2.add("D", prim("int64"), 70, "default")
	s3 := newStruct("ids")
	s3.add("In", ptr(sref(s)), 1, "optional")
	s3.add("Title", prim("string"), 64, "required")
	s3.add("L", list(sref(s2)), 128, "default")
	s3.add("X", prim("int32"), 70, "required")
}

func groupByValue() {
	s := newStruct("byvalue")
	s.add("V", sref(leaf), 1, "default")
	s.add("VO", sref(leaf), 2, "optional")
	s.add("VR", sref(leaf), 3, "required")
	s.add("P", ptr(sref(leaf)), 4, "default")
	s.add("PO", ptr(sref(leaf)), 5, "optional")
	s.add("PR", ptr(sref(leaf)), 6, "required")
	s.add("LV", list(sref(leaf)), 7, "default")
	s.add("LP", list(ptr(sref(leaf))), 8, "default")
	s.add("MV", mapOf(prim("int32"), sref(leaf)), 9, "default")
	s.add("MP", mapOf(prim("int32"), ptr(sref(leaf))), 10, "default")
	s.add("VI", sref(leafInit), 11, "default")
	s.add("VH", sref(leafHolder), 12, "default")
	s.add("VQ", sref(leafReq), 13, "optional")
	s.add("PQ", ptr(sref(leafReq)), 14, "optional")
}

func groupNoCopy() {
	s := newStruct("nocopy")
	s.add("S1", prim("string"), 1, "default", "nocopy")
	s.add("S2", prim("string"), 2, "default")
	s.add("B1", binary(), 3, "default", "nocopy")
	s.add("B2", binary(), 4, "default")
	s.add("P1", ptr(prim("string")), 5, "optional", "nocopy")
	s.add("P2", ptr(prim("string")), 6, "optional")
	s.add("O1", prim("string"), 7, "optional", "nocopy")
	s.add("OB", binary(), 8, "optional", "nocopy")
	// different id order vs declaration order, nested
	t := newStruct("nocopy")
	t.add("Z", prim("string"), 9, "default")
	t.add("Y", prim("string"), 4, "required", "nocopy")
	t.add("In", ptr(sref(s)), 2, "optional")
	t.add("InV", sref(s), 7, "default")
	t.add("L", list(ptr(sref(s))), 1, "default")
	t.add("W", binary(), 3, "default", "nocopy")
	// the option after an omitted / empty type slot (a spelling the resolver's own tests declare legal)
	e := newStruct("nocopy")
	e.addRaw("T1", prim("string"), `frugal:"1,default,,nocopy"`, 1, true)
	e.addRaw("T2", binary(), `frugal:"2,optional,,nocopy"`, 2, true)
	e.addRaw("T3", ptr(prim("string")), `frugal:"3,optional,,nocopy"`, 3, true)
	e.addRaw("S", prim("string"), `frugal:"4,default,string"`, 4, true)
	// other spellings around the type slot, one struct each (some are rejected: the model decides)
	for _, tag := range []string{"`thrift:\"T4,4,required\" frugal:\",,,nocopy\"`", "`frugal:\"5,default,\"`",
		"`frugal:\"6,default, string , nocopy \"`", "`frugal:\"7,default,,\"`", "`frugal:\"8,required, ,nocopy\"`"} {
		x := newStruct("nocopy")
		x.Accept = false // not used by the value streams: only resolved (C12 / C13), accepted or not
		x.addRaw("T", prim("string"), tag[1:len(tag)-1], int(tag[strings.IndexAny(tag, "45678")]-'0'), true)
		x.addRaw("B", binary(), `frugal:"20,default,binary,nocopy"`, 20, true)
	}
	// nocopy fields in a struct with declared (non-empty) defaults: a zero-length value must still
	// override the default
	d := newStruct("nocopy")
	d.HasInit = true
	f := d.add("S", prim("string"), 1, "default", "nocopy")
	f.Dflt, f.DfltVal, _ = dfltFor(f.Ty, false)
	f = d.add("O", prim("string"), 2, "optional", "nocopy")
	f.Dflt, f.DfltVal, _ = dfltFor(f.Ty, false)
	f = d.add("C", prim("string"), 3, "default")
	f.Dflt, f.DfltVal, _ = dfltFor(f.Ty, false)
	o := newStruct("nocopy")
	o.add("In", sref(d), 1, "default")
	o.add("Ps", list(ptr(sref(d))), 2, "default")
	o.add("M", mapOf(prim("int32"), sref(d)), 3, "default")
}

// one writer with many small fields of few distinct wire sizes (4, 5, 7, 11 bytes and short strings)
// and readers with holders that know different subsets: known and unknown fields interleave in many
// runs whose lengths coincide in many ways (C11: holder bookkeeping by offset and size)
func groupEvoMix() {
	kinds := []*Ty{prim("bool"), prim("int32"), prim("int64"), prim("int8"), prim("int16"), prim("float64"),
		prim("string"), prim("int32"), prim("bool"), prim("int64"), prim("int16"), prim("int32"), prim("int8"), prim("float64")}
	w := newStruct("evomixw")
	for i, t := range kinds {
		w.add(fmt.Sprintf("F%d", i+1), t, i+1, "default")
	}
	for k := 0; k < 8; k++ {
		r := newStruct("evomix")
		r.Writer = w.Sid
		for i, t := range kinds {
			if (rng.Intn(2) == 0) {
				r.add(fmt.Sprintf("F%d", i+1), t, i+1, "default")
			}
		}
		if len(r.Fields) == 0 {
			r.add("F2", kinds[1], 2, "default")
		}
		r.addHolder()
	}
}

// Go representation corner cases of the *argument*: structs that the runtime stores directly in an
// interface word (exactly one pointer-shaped field: pointer, map), passed by value; and readers with
// no schema field at all (empty struct, only untagged fields, only the holder) whose writer uses
// field id 0.
func groupShapes() {
	for _, t := range []*Ty{ptr(sref(leaf)), mapOf(prim("string"), prim("string")), ptr(prim("int64")),
		mapOf(prim("int32"), ptr(sref(leaf))), ptr(prim("string"))} {
		s := newStruct("byvalue")
		req := "default"
		if t.K == "ptr" {
			req = "optional"
		}
		s.add("Only", t, 1, req)
	}
	w := newStruct("emptyw")
	w.add("Z", prim("int32"), 0, "default")
	w.add("A", prim("string"), 1, "default")
	w.add("L", list(prim("int64")), 5, "default")
	e1 := newStruct("empty")
	e1.Writer = w.Sid
	e2 := newStruct("empty")
	e2.Writer = w.Sid
	e2.addRaw("Untagged", prim("int32"), "", -1, false)
	e3 := newStruct("empty")
	e3.Writer = w.Sid
	e3.addHolder()
	nw := newStruct("emptyw")
	nw.add("Sub", ptr(sref(w)), 1, "optional")
	nw.add("Subs", list(ptr(sref(w))), 2, "default")
	nr := newStruct("empty")
	nr.Writer = nw.Sid
	nr.add("Sub", ptr(sref(e3)), 1, "optional")
	nr.add("Subs", list(ptr(sref(e1))), 2, "default")
}

// structs with more declared fields than an int8 / uint8 position table can index (field ids on both
// sides of 128 and 256 positions), plain and with the holder, and nested
func groupWide() {
	kinds := []*Ty{prim("int32"), prim("string"), prim("bool"), prim("int64"), prim("int16"), prim("float64"), prim("int8")}
	for _, n := range []int{130, 300} {
		s := newStruct("wide")
		for i := 0; i < n; i++ {
			req := "default"
			if i%17 == 5 {
				req = "optional"
			}
			if i%61 == 7 {
				req = "required"
			}
			s.add(fmt.Sprintf("F%d", i+1), kinds[i%len(kinds)], i+1, req)
		}
		if n == 130 {
			s.addHolder()
		}
		o := newStruct("wide")
		o.add("W", ptr(sref(s)), 1, "optional")
		o.add("L", list(ptr(sref(s))), 2, "default")
	}
}

// a struct whose fixed-size fields add up to more than 65535 encoded bytes (8200 x i64: 90200) and whose
// Go size exceeds 65535 bytes (65600 + the holder): sums and offsets kept in
// 16 bits wrap (P4).  Used by the size stream only (group `huge` is not part of the default type list).
func groupHuge() {
	s := newStruct("huge")
	for i := 0; i < 8200; i++ {
		s.add(fmt.Sprintf("F%d", i+1), prim("int64"), i+1, "default")
	}
	// … and its holder lies beyond byte 65535 of the struct (S3 kept the holder's offset in 16 bits)
	s.addHolder()
}

// by-value structs whose only field is a by-value struct that is itself pointer-shaped (stored
// directly in the interface word, at any wrapping depth)
func groupWrapped() {
	for _, t := range []*Ty{ptr(sref(leaf)), mapOf(prim("string"), prim("int32")), ptr(prim("int32"))} {
		in := newStruct("byvalue")
		req := "default"
		if t.K == "ptr" {
			req = "optional"
		}
		in.add("Head", t, 1, req)
		w1 := newStruct("byvalue")
		w1.add("In", sref(in), 1, "default")
		w2 := newStruct("byvalue")
		w2.add("In", sref(w1), 1, "required")
	}
}

// optional-pointer forms of string and binary, copied and nocopy (C14: "in both its plain and
// optional-pointer forms"; a `*[]byte` must come back as a well-formed slice: D12)
func groupPtrBinary() {
	s := newStruct("ptrbinary")
	s.add("PB", ptr(binary()), 1, "optional")
	s.add("PBN", ptr(binary()), 2, "optional", "nocopy")
	s.add("PS", ptr(prim("string")), 3, "optional")
	s.add("PSN", ptr(prim("string")), 4, "optional", "nocopy")
	s.add("B", binary(), 5, "default", "nocopy")
	t := newStruct("ptrbinary")
	t.add("In", ptr(sref(s)), 1, "optional")
	t.add("L", list(ptr(sref(s))), 2, "default")
	t.add("PB", ptr(binary()), 3, "optional", "nocopy")
}

// writer / reader evolution pairs with holders
func groupEvolution() {
	w := newStruct("evolution")
	w.add("A", prim("int32"), 1, "default")
	w.add("B", prim("string"), 2, "default")
	w.add("C", list(prim("int64")), 3, "default")
	w.add("D", mapOf(prim("string"), ptr(sref(leaf))), 4, "default")
	w.add("E", ptr(sref(leaf)), 5, "optional")
	w.add("F", prim("float64"), 6, "default")
	w.add("G", set(prim("string")), 7, "default")
	w.add("H", prim("bool"), 8, "default")
	w.add("I", prim("int8"), 9, "default")
	w.add("J", prim("int16"), 10, "default")
	w.add("K", list(list(prim("string"))), 11, "default")
	w.add("L", mapOf(prim("int32"), list(ptr(sref(leaf)))), 12, "default")
	w.add("N", sref(leafHolder), 13, "default")
	w.add("O", list(ptr(sref(leafHolder))), 14, "default")

	mk := func(holder bool, f func(r *Struct)) *Struct {
		r := newStruct("evolution")
		r.Writer = w.Sid
		f(r)
		if holder {
			r.addHolder()
		}
		return r
	}
	for _, holder := range []bool{true, false} {
		// fields removed
		mk(holder, func(r *Struct) {
			r.add("A", prim("int32"), 1, "default")
			r.add("F", prim("float64"), 6, "default")
			r.add("N", sref(leafHolder), 13, "default")
		})
		// retyped: same ids, different wire types
		mk(holder, func(r *Struct) {
			r.add("A", prim("int64"), 1, "default")
			r.add("B", binary(), 2, "default") // same wire type (string): still decodes
			r.add("C", set(prim("int64")), 3, "default")
			r.add("D", list(prim("int32")), 4, "default")
			r.add("E", prim("string"), 5, "optional")
			r.add("G", list(prim("string")), 7, "default")
			r.add("H", prim("int8"), 8, "default")
		})
		// renumbered + added
		mk(holder, func(r *Struct) {
			r.add("A", prim("int32"), 21, "default")
			r.add("B", prim("string"), 1, "default")
			r.add("New", prim("int32"), 100, "optional")
			r.add("O", list(ptr(sref(leafHolder))), 14, "default")
			r.add("K", list(list(prim("string"))), 11, "default")
		})
	}
	// reader with required field the writer lacks / has
	mk(true, func(r *Struct) {
		r.add("A", prim("int32"), 1, "required")
		r.add("Z", prim("int32"), 99, "optional")
	})
	mk(false, func(r *Struct) {
		r.add("A", prim("int32"), 1, "required")
		r.add("Miss", prim("int32"), 98, "required")
	})
	// nested holders at two levels (parent and child both keep unknown fields)
	child := newStruct("evolution")
	child.add("X", prim("int32"), 1, "default")
	child.addHolder()
	childW := newStruct("evolution")
	childW.add("X", prim("int32"), 1, "default")
	childW.add("Y", prim("string"), 2, "default")
	childW.add("Z", list(prim("int32")), 3, "default")
	pw := newStruct("evolution")
	pw.add("U0", prim("string"), 1, "default")
	pw.add("C", ptr(sref(childW)), 2, "optional")
	pw.add("U1", prim("int64"), 3, "default")
	pw.add("CL", list(sref(childW)), 4, "default")
	pw.add("U2", mapOf(prim("int32"), prim("string")), 5, "default")
	pr := newStruct("evolution")
	pr.Writer = pw.Sid
	pr.add("C", ptr(sref(child)), 2, "optional")
	pr.add("CL", list(sref(child)), 4, "default")
	pr.addHolder()
	// element struct with only fixed-size always-written fields + holder
	fx := newStruct("evolution")
	fx.add("A", prim("int32"), 1, "default")
	fx.add("B", prim("int64"), 2, "required")
	fx.addHolder()
	fw := newStruct("evolution")
	fw.add("A", prim("int32"), 1, "default")
	fw.add("B", prim("int64"), 2, "required")
	fw.add("Extra", prim("string"), 3, "default")
	lw := newStruct("evolution")
	lw.add("L", list(ptr(sref(fw))), 1, "default")
	lw.add("S", set(sref(fw)), 2, "default")
	lw.add("M", mapOf(prim("int32"), ptr(sref(fw))), 3, "default")
	lr := newStruct("evolution")
	lr.Writer = lw.Sid
	lr.add("L", list(ptr(sref(fx))), 1, "default")
	lr.add("S", set(sref(fx)), 2, "default")
	lr.add("M", mapOf(prim("int32"), ptr(sref(fx))), 3, "default")
}

// equivalent spellings of one schema (C12) and cache-key collisions
func groupSpellings() {
	type spec struct {
		name string
		ty   *Ty
		id   int
		req  string
	}
	base := []spec{{"A", prim("int8"), 1, "default"}, {"B", prim("int32"), 2, "required"},
		{"C", prim("string"), 3, "optional"}, {"D", prim("float64"), 4, "default"},
		{"E", prim("bool"), 5, "default"}, {"F", prim("int64"), 6, "default"}, {"G", prim("int16"), 7, "optional"}}
	variants := []func(sp spec) string{
		func(sp spec) string { return fmt.Sprintf(`frugal:"%d,%s,%s"`, sp.id, sp.req, sp.ty.Annot()) },
		func(sp spec) string { return fmt.Sprintf(`thrift:"%s_field,%d,%s,%s"`, sp.name, sp.id, sp.req, sp.ty.Annot()) },
		func(sp spec) string { return fmt.Sprintf(`frugal:" %d , %s ,  %s "`, sp.id, sp.req, sp.ty.Annot()) },
		func(sp spec) string { return fmt.Sprintf(`frugal:"%d,%s"`, sp.id, sp.req) },
		func(sp spec) string {
			return fmt.Sprintf(`json:"x,omitempty" frugal:"%d,%s,%s" thrift:"zz,99,required,i64"`, sp.id, sp.req, sp.ty.Annot())
		},
		func(sp spec) string {
			a := sp.ty.Annot()
			if a == "i8" {
				a = "byte"
			}
			return fmt.Sprintf(`thrift:"n,%d,%s,%s" json:"y"`, sp.id, sp.req, a)
		},
		func(sp spec) string {
			if sp.req == "default" {
				return fmt.Sprintf(`thrift:"%s,%d"`, sp.name, sp.id)
			}
			return fmt.Sprintf(`thrift:"%s,%d,%s"`, sp.name, sp.id, sp.req)
		},
	}
	for vi, v := range variants {
		s := newStruct("spellings")
		// untagged, unexported, embedded fields sprinkled between
		s.addRaw("Untagged", prim("int32"), "", -1, false)
		for i, sp := range base {
			s.addRaw(sp.name, sp.ty, v(sp), sp.id, true)
			if i == 2 {
				s.addRaw("private", prim("string"), `frugal:"50,default,string"`, -1, false)
			}
		}
		if vi%2 == 0 {
			f := s.addRaw("", sref(leaf), fmt.Sprintf(`frugal:"60,default,%s"`, leaf.Name), -1, false)
			f.Embedded = true
		}
		s.addRaw("JSONOnly", prim("string"), `json:"only"`, -1, false)
	}
	// an embedded struct that itself declares the unknown-fields holder: embedded fields are ignored and
	// the outer struct has no holder of its own (D14: the holder was looked up among promoted fields too)
	for _, byPtr := range []bool{false, true} {
		eo := newStruct("spellings")
		eo.addRaw("X", prim("int64"), `frugal:"1,default,i64"`, 1, true)
		eo.addRaw("Y", prim("string"), `frugal:"2,default,string"`, 2, true)
		ty := sref(leafHolder)
		if byPtr {
			ty = ptr(sref(leafHolder))
		}
		f := eo.addRaw("", ty, "", -1, false)
		f.Embedded = true
		eo.addRaw("Z", prim("string"), `frugal:"3,optional,string"`, 3, true)
	}
	// embedded fields of every shape are ignored, tagged or not, also when their tag repeats an id in use
	// (R2 let tagged embedded pointers and embedded named non-struct types become wire fields)
	{
		ee := newStruct("spellings")
		ee.addRaw("X", prim("int64"), `frugal:"1,default,i64"`, 1, true)
		f := ee.addRaw("", ptr(sref(leaf)), fmt.Sprintf(`frugal:"2,optional,%s"`, leaf.Name), -1, false)
		f.Embedded = true
		f = ee.addRaw("", named("int64", "E1"), `frugal:"3,required,E1"`, -1, false)
		f.Embedded = true
		at := mapOf(prim("string"), prim("string"))
		at.Named = "AttrsT"
		f = ee.addRaw("", at, `frugal:"4,default,map<string:string>"`, -1, false)
		f.Embedded = true
		it := list(prim("int64"))
		it.Named = "IDsT"
		f = ee.addRaw("", it, `thrift:"ids,1,required,list<i64>"`, -1, false)
		f.Embedded = true
		ee.addRaw("Y", prim("string"), `frugal:"5,default,string"`, 5, true)
	}
	// zero-size fields share their offset with the field after them (D15: the required-field error
	// named the field by offset)
	em := newStruct("leaf")
	zs := newStruct("ids")
	zs.add("E", sref(em), 1, "default")
	zs.add("R", prim("int32"), 2, "required")
	zs.add("S", prim("string"), 3, "required")
	zs.add("E2", sref(em), 4, "required")
	zs.add("E3", sref(em), 6, "required") // same offset and same Go type as E2
	zs.add("T", prim("int64"), 5, "required")
	// struct annotations: bare, package qualified, pointer, in containers
	s := newStruct("spellings")
	s.addRaw("A", sref(leaf), fmt.Sprintf(`frugal:"1,default,%s"`, leaf.Name), 1, true)
	s.addRaw("B", ptr(sref(leaf)), fmt.Sprintf(`frugal:"2,optional,universe.%s"`, leaf.Name), 2, true)
	s.addRaw("C", list(ptr(sref(leaf))), fmt.Sprintf(`frugal:"3,default,list<pkg.%s>"`, leaf.Name), 3, true)
	s.addRaw("D", mapOf(prim("string"), ptr(sref(leaf))), fmt.Sprintf(`frugal:"4,default,map<string:a.%s>"`, leaf.Name), 4, true)
	s.addRaw("E", sref(leaf), `frugal:"5,default"`, 5, true)
	s.addRaw("F", enumTy, `frugal:"6,default,universe.E1"`, 6, true)
	s.addRaw("G", list(enumTy), `frugal:"7,default,list< E1 >"`, 7, true)
	s.addRaw("H", mapOf(prim("int32"), prim("string")), `frugal:"8,default, map < i32 : string > "`, 8, true)
	s.addRaw("I", prim("int"), `frugal:"9,default,i64"`, 9, true)
	s.addRaw("L", prim("int"), `frugal:"12,default,int"`, 12, true) // `int` named by its own name: enum
	// a named type of kind `int` under its own name (enum), in containers, and as plain i64
	c1 := named("int", "C1")
	ci := newStruct("spellings")
	ci.addRaw("M", c1, `frugal:"1,default,C1"`, 1, true)
	ci.addRaw("N", list(c1), `frugal:"2,default,list<C1>"`, 2, true)
	ci.addRaw("O", mapOf(c1, prim("string")), `frugal:"3,default,map<C1:string>"`, 3, true)
	ci.addRaw("P", c1, `frugal:"4,default,i64"`, 4, true)
	ci.addRaw("Q", ptr(c1), `frugal:"5,optional,universe.C1"`, 5, true)
	// spellings of the field id: resolve-only (whether each is accepted is the model's to say)
	for _, id := range []string{"010", "08", "0x10", "0b1", "0o7", "1_0", "+5", "00", "000065535", "0065536", "١"} {
		x := newStruct("spellings")
		x.Accept = false
		x.addRaw("A", prim("int32"), `frugal:"`+id+`,default,i32"`, -1, true)
		x.addRaw("B", prim("int32"), `frugal:"8,default,i32"`, 8, true)
	}
	// annotations that used to be accepted by substring matching of the keyword, and text after a
	// complete annotation (D18, D19): resolve-only, one struct each
	for _, c := range []struct {
		ty  *Ty
		ann string
	}{{prim("int64"), "i6"}, {prim("int64"), "6"}, {prim("int64"), "i"}, {prim("string"), "ring"}, {prim("float64"), "e"},
		{prim("int32"), "i32>>>"}, {prim("int64"), "i64 junk <"}, {list(prim("int32")), "list<i32>>trailing"},
		{prim("int8"), "i8 byte"}, {prim("int32"), "i32 "}, {mapOf(prim("int32"), prim("int32")), "map<i32:i32>>"}} {
		x := newStruct("spellings")
		x.Accept = false
		x.addRaw("A", c.ty, `frugal:"1,default,`+c.ann+`"`, 1, true)
	}
	// package qualifiers that are substrings of a keyword ("t", "s", "str", "ct" of "struct"; "i" of "i64")
	q := newStruct("spellings")
	q.addRaw("A", list(ptr(sref(leaf))), fmt.Sprintf(`frugal:"1,default,list<t.%s>"`, leaf.Name), 1, true)
	q.addRaw("B", mapOf(prim("string"), ptr(sref(leaf))), fmt.Sprintf(`frugal:"2,default,map<string:str.%s>"`, leaf.Name), 2, true)
	q.addRaw("C", sref(leaf), fmt.Sprintf(`frugal:"3,default,s.%s"`, leaf.Name), 3, true)
	q.addRaw("D", enumTy, `frugal:"4,default,i.E1"`, 4, true)
	q.addRaw("E", list(enumTy), `frugal:"5,default,list<i.E1>"`, 5, true)
	q.addRaw("F", set(ptr(sref(leaf))), fmt.Sprintf(`frugal:"6,default,set<ct.%s>"`, leaf.Name), 6, true)
	// same named int64 type used as enum and as plain i64, in both first-use orders
	e2, e3 := named("int64", "E2"), named("int64", "E3")
	a := newStruct("spellings")
	a.addRaw("X", e2, `frugal:"1,default,E2"`, 1, true)
	a.addRaw("L", list(e2), `frugal:"2,default,list<E2>"`, 2, true)
	a.addRaw("M", mapOf(prim("string"), e2), `frugal:"3,default,map<string:E2>"`, 3, true)
	b := newStruct("spellings")
	b.addRaw("X", e2, `frugal:"1,default,i64"`, 1, true)
	b.addRaw("L", list(e2), `frugal:"2,default,list<i64>"`, 2, true)
	b.addRaw("M", mapOf(prim("string"), e2), `frugal:"3,default,map<string:i64>"`, 3, true)
	c := newStruct("spellings")
	c.addRaw("X", e3, `frugal:"1,default,i64"`, 1, true)
	c.addRaw("L", list(e3), `frugal:"2,default,list<i64>"`, 2, true)
	c.addRaw("P", ptr(e3), `frugal:"3,optional,i64"`, 3, true)
	d := newStruct("spellings")
	d.addRaw("X", e3, `frugal:"1,default,E3"`, 1, true)
	d.addRaw("L", list(e3), `frugal:"2,default,list<E3>"`, 2, true)
	d.addRaw("P", ptr(e3), `frugal:"3,optional,E3"`, 3, true)
	// same Go type, set vs list at depth 1..3, in both orders
	for depth := 1; depth <= 3; depth++ {
		for _, setFirst := range []bool{true, false} {
			elem := prim("int32")
			if depth == 2 && setFirst {
				elem = prim("int16")
			}
			if depth == 3 && setFirst {
				elem = prim("int64")
			}
			mk := func(isSet bool) *Ty {
				var t *Ty
				if isSet {
					t = set(elem)
				} else {
					t = list(elem)
				}
				for i := 1; i < depth; i++ {
					t = list(t)
				}
				return t
			}
			s1 := newStruct("spellings")
			s1.add("X", mk(setFirst), 1, "default")
			s1.add("M", mapOf(prim("int32"), mk(setFirst)), 2, "default")
			s2 := newStruct("spellings")
			s2.add("X", mk(!setFirst), 1, "default")
			s2.add("M", mapOf(prim("int32"), mk(!setFirst)), 2, "default")
		}
	}
}

// every invalid class of C13
func groupInvalid() {
	bad := func(f func(s *Struct)) *Struct {
		s := newStruct("invalid")
		s.Accept = false
		s.add("Ok", prim("int32"), 1, "default")
		f(s)
		return s
	}
	unsupported := []*Ty{prim("uint"), prim("uint8"), prim("uint16"), prim("uint32"), prim("uint64"),
		prim("float32"), arr(4, prim("int32")), prim("chan"), prim("func"), prim("iface"),
		prim("complex128"), prim("uintptr"), prim("unsafeptr"), named("uint8", "NB")}
	for _, t := range unsupported {
		t := t
		bad(func(s *Struct) { s.add("X", t, 2, "default") })
	}
	for _, t := range []*Ty{prim("uint32"), prim("float32"), arr(2, prim("int8")), prim("iface")} {
		t := t
		bad(func(s *Struct) { s.add("X", list(t), 2, "default") })
		bad(func(s *Struct) { s.add("X", mapOf(prim("int32"), t), 2, "default") })
		bad(func(s *Struct) { s.add("X", ptr(t), 2, "optional") })
		bad(func(s *Struct) { s.add("X", list(list(t)), 2, "default") })
	}
	bad(func(s *Struct) { s.add("X", mapOf(prim("uint32"), prim("int32")), 2, "default") })
	bad(func(s *Struct) { s.add("X", mapOf(prim("float32"), prim("int32")), 2, "default") })
	raw := func(name string, ty *Ty, tag string) *Struct {
		return bad(func(s *Struct) { s.addRaw(name, ty, tag, -1, false) })
	}
	// slice without annotation
	raw("X", list(prim("int32")), `frugal:"2,default"`)
	raw("X", list(prim("int32")), `thrift:"x,2,default"`)
	raw("X", mapOf(prim("int32"), list(prim("int32"))), `frugal:"2,default"`)
	// annotation contradicts the Go type
	raw("X", prim("int32"), `frugal:"2,default,i64"`)
	raw("X", prim("string"), `frugal:"2,default,binary"`)
	raw("X", binary(), `frugal:"2,default,string"`)
	raw("X", list(prim("int32")), `frugal:"2,default,map<i32:i32>"`)
	raw("X", mapOf(prim("int32"), prim("int32")), `frugal:"2,default,list<i32>"`)
	raw("X", sref(leaf), `frugal:"2,default,Other"`)
	raw("X", list(prim("int32")), `frugal:"2,default,list<i64>"`)
	raw("X", mapOf(prim("int32"), prim("string")), `frugal:"2,default,map<i32:i32>"`)
	raw("X", prim("int64"), `frugal:"2,default,E1"`)
	raw("X", prim("float64"), `frugal:"2,default,float"`)
	raw("X", prim("int32"), `frugal:"2,default,list<i32>"`)
	// a slice of a defined uint8 type is not []byte: not binary, and uint8 is not a Thrift element type
	raw("X", list(named("uint8", "NB")), `frugal:"2,default,binary"`)
	raw("X", list(named("uint8", "NB")), `frugal:"2,default"`)
	raw("X", list(named("uint8", "NB")), `frugal:"2,default,list<byte>"`)
	raw("X", mapOf(prim("int32"), list(named("uint8", "NB"))), `frugal:"2,default,map<i32:binary>"`)
	raw("X", list(list(named("uint8", "NB"))), `frugal:"2,default,list<binary>"`)
	// control bytes are not white space (S1 skipped every byte <= ' '); raw bytes in the tag, not escapes (the
	// model of StructTag.Lookup does not undo escapes)
	for _, a := range []string{"\x01i32", "list<\x01i32>", "list<i32\x1f>", "\bi32", "list<\x7fi32>"} {
		raw("X", list(prim("int32")), `frugal:"2,default,`+a+`"`)
	}
	raw("X", prim("int64"), "frugal:\"2,default,i64\x1f\"")
	raw("X", prim("int64"), "frugal:\"2,default,\x02i64\"")
	// broken syntax
	for _, a := range []string{"list<i32", "list i32>", "list<>", "<i32>", "lst<i32>", "list<i32,>", "set<", "list"} {
		raw("X", list(prim("int32")), `frugal:"2,default,`+a+`"`)
	}
	for _, a := range []string{"map<i32,i32>", "map<i32:>", "map<i32:i32", "map i32:i32>", "map<:i32>", "map<i32 i32>", "map"} {
		raw("X", mapOf(prim("int32"), prim("int32")), `frugal:"2,default,`+a+`"`)
	}
	raw("X", sref(leaf), `frugal:"2,default,a.`+`"`)
	raw("X", sref(leaf), `frugal:"2,default,a.1"`)
	raw("X", sref(leaf), `frugal:"2,default,a b"`)
	raw("X", prim("int32"), `frugal:"2,default,<"`)
	// invalid key types
	bad(func(s *Struct) { s.add("X", mapOf(sref(leaf), prim("int32")), 2, "default") })
	bad(func(s *Struct) { s.add("X", mapOf(ptr(prim("int32")), prim("int32")), 2, "default") })
	bad(func(s *Struct) { s.add("X", mapOf(arr(2, prim("int32")), prim("int32")), 2, "default") })
	bad(func(s *Struct) { s.add("X", mapOf(ptr(prim("string")), prim("int32")), 2, "default") })
	// non-struct pointers where only values are allowed
	bad(func(s *Struct) { s.add("X", list(ptr(prim("int32"))), 2, "default") })
	bad(func(s *Struct) { s.add("X", mapOf(prim("int32"), ptr(prim("string"))), 2, "default") })
	bad(func(s *Struct) { s.add("X", set(ptr(prim("float64"))), 2, "optional") })
	bad(func(s *Struct) { s.add("X", list(list(ptr(prim("int64")))), 2, "default") })
	bad(func(s *Struct) { s.add("X", ptr(prim("int32")), 2, "default") })  // non-optional scalar pointer
	bad(func(s *Struct) { s.add("X", ptr(prim("string")), 2, "required") })
	// … of every pointee kind and both non-optional requirednesses (P2 let `*[]byte` through)
	for _, t := range []*Ty{prim("bool"), prim("int8"), prim("int16"), prim("int64"), prim("float64"), binary(), named("int64", "E1")} {
		t := t
		bad(func(s *Struct) { s.add("X", ptr(t), 2, "default") })
		bad(func(s *Struct) { s.add("X", ptr(t), 2, "required") })
	}
	raw("X", ptr(binary()), `thrift:"x,2"`)
	// pointers to pointers or to containers
	bad(func(s *Struct) { s.add("X", ptr(ptr(sref(leaf))), 2, "optional") })
	bad(func(s *Struct) { s.add("X", ptr(ptr(prim("int32"))), 2, "optional") })
	bad(func(s *Struct) { s.add("X", ptr(list(prim("int32"))), 2, "optional") })
	bad(func(s *Struct) { s.add("X", ptr(set(prim("int32"))), 2, "optional") })
	bad(func(s *Struct) { s.add("X", ptr(mapOf(prim("int32"), prim("int32"))), 2, "optional") })
	bad(func(s *Struct) { s.add("X", list(ptr(ptr(sref(leaf)))), 2, "default") })
	bad(func(s *Struct) { s.add("X", mapOf(prim("int32"), ptr(list(prim("int32")))), 2, "default") })
	bad(func(s *Struct) { s.add("X", list(ptr(list(prim("string")))), 2, "optional") })
	// ids
	for _, id := range []string{"1", "x", "-1", "65536", "1.5", "", " ", "+1", "0x10", "1_0", "99999999999999999999"} {
		raw("X", prim("int32"), `frugal:"`+id+`,default,i32"`)
	}
	raw("X", prim("int32"), `frugal:""`)
	raw("X", prim("int32"), `thrift:"onlyname"`)
	// requiredness
	for _, r := range []string{"opt", "Required", "", "DEFAULT", "optional "} {
		if r == "optional " {
			continue // trimmed: valid
		}
		raw("X", prim("int32"), `frugal:"2,`+r+`,i32"`)
	}
	// options
	raw("X", prim("int32"), `frugal:"2,default,i32,nocopy"`)
	raw("X", prim("string"), `frugal:"2,default,string,nocopy,nocopy"`)
	raw("X", prim("string"), `frugal:"2,default,string,foo"`)
	raw("X", prim("string"), `frugal:"2,default,string,"`)
	raw("X", list(prim("string")), `frugal:"2,default,list<string>,nocopy"`)
	raw("X", prim("string"), `frugal:"2,default,string,NoCopy"`)
	// valid outer types that reference an invalid struct
	inner := bad(func(s *Struct) { s.addRaw("X", prim("int32"), `frugal:"1,default,i32"`, -1, false) }) // duplicate id 1
	for _, mk := range []func(*Ty) *Ty{
		func(t *Ty) *Ty { return ptr(t) },
		func(t *Ty) *Ty { return list(ptr(t)) },
		func(t *Ty) *Ty { return mapOf(prim("string"), ptr(t)) },
		func(t *Ty) *Ty { return t },
		func(t *Ty) *Ty { return list(list(t)) },
	} {
		mk := mk
		o := bad(func(s *Struct) {
			if mk(sref(inner)).K == "ptr" {
				s.add("In", mk(sref(inner)), 2, "optional")
			} else {
				s.add("In", mk(sref(inner)), 2, "default")
			}
		})
		_ = o
	}
	// three levels: Top -> *Mid -> *Bad, plus a sibling nesting *Mid, plus a cycle through Top
	mid := newStruct("invalid")
	mid.Accept = false
	top := newStruct("invalid")
	top.Accept = false
	mid.add("V", prim("int32"), 1, "default")
	mid.add("Back", ptr(sref(top)), 2, "optional")
	mid.add("Bad", ptr(sref(inner)), 3, "optional")
	top.add("V", prim("int32"), 1, "default")
	top.add("Mid", ptr(sref(mid)), 2, "optional")
	sib := newStruct("invalid")
	sib.Accept = false
	sib.add("Mids", list(ptr(sref(mid))), 1, "default")
	sib2 := newStruct("invalid")
	sib2.Accept = false
	sib2.add("T", ptr(sref(top)), 1, "optional")
}

// clusters of mutually nested types that are first used concurrently (C08):
//   W{*A}, A{*B, *C1..*Ck}, B{*A}; every cluster consists of fresh types
func groupClusters(n, k int) {
	for i := 0; i < n; i++ {
		w := newStruct("cluster")
		a := newStruct("cluster")
		b := newStruct("cluster")
		w.add("A", ptr(sref(a)), 1, "optional")
		w.add("V", prim("int32"), 2, "default")
		a.add("B", ptr(sref(b)), 1, "optional")
		for j := 0; j < k; j++ {
			cst := newStruct("clusterleaf")
			cst.add("X", prim("int64"), 1, "default")
			cst.add("Y", list(prim("string")), 2, "optional")
			cst.add("Z", mapOf(prim("string"), prim("int32")), 3, "optional")
			a.add(fmt.Sprintf("C%d", j), ptr(sref(cst)), 2+j, "optional")
		}
		b.add("A", ptr(sref(a)), 1, "optional")
		b.add("N", prim("string"), 2, "default")
	}
}

// random reference graphs (C07 / C13, build caches): g graphs of m structs each; pointer, list,
// set and map edges go anywhere inside the graph (cycles included), by-value edges only to
// lower-numbered members (Go forbids by-value cycles); some members are invalid, and a member is
// accepted exactly when no invalid member is reachable from it.
func groupGraphs(g, m int) {
	for gi := 0; gi < g; gi++ {
		var ms []*Struct
		for i := 0; i < m; i++ {
			ms = append(ms, newStruct("graph"))
		}
		bad := map[int]bool{}
		nbad := 1 + rng.Intn(2)
		if gi == 0 {
			nbad = 0
		}
		for i := 0; i < nbad; i++ {
			bad[rng.Intn(m)] = true
		}
		edges := make([][]int, m)
		for i, st := range ms {
			st.add("V", prim("int32"), 1, "default")
			ne := 1 + rng.Intn(3)
			if bad[i] {
				ne = rng.Intn(2) // invalid members are mostly leaves: more members stay valid
			}
			for e := 0; e < ne; e++ {
				j := rng.Intn(m)
				var t *Ty
				req := "default"
				switch rng.Intn(6) {
				case 0:
					if j < i {
						t = sref(ms[j])
					} else {
						t = ptr(sref(ms[j]))
						req = "optional"
					}
				case 1:
					t = ptr(sref(ms[j]))
					req = "optional"
				case 2:
					t = list(ptr(sref(ms[j])))
				case 3:
					t = mapOf(prim("string"), ptr(sref(ms[j])))
				case 4:
					if j < i {
						t = list(sref(ms[j]))
					} else {
						t = set(ptr(sref(ms[j])))
					}
				default:
					t = mapOf(ptr(sref(ms[j])), list(ptr(sref(ms[(j+1)%m]))))
					edges[i] = append(edges[i], (j+1)%m)
				}
				edges[i] = append(edges[i], j)
				st.add(fmt.Sprintf("E%d", e), t, 2+e, req)
			}
			if bad[i] {
				st.addRaw("Bad", prim("uint32"), `frugal:"40,default"`, -1, false)
			}
		}
		// acceptance = no invalid member reachable
		for i, st := range ms {
			seen := map[int]bool{}
			todo := []int{i}
			ok := true
			for len(todo) > 0 {
				x := todo[len(todo)-1]
				todo = todo[:len(todo)-1]
				if seen[x] {
					continue
				}
				seen[x] = true
				if bad[x] {
					ok = false
				}
				todo = append(todo, edges[x]...)
			}
			st.Accept = ok
		}
	}
}

// ---------- random part ----------

func randScalar() *Ty {
	ts := scalarTys()
	return ts[rng.Intn(len(ts))]
}

func randKey(pool []*Struct) *Ty {
	ks := keyForms()
	k := ks[rng.Intn(len(ks))]
	if k.K == "ptr" && len(pool) > 0 {
		return ptr(sref(pool[rng.Intn(len(pool))]))
	}
	return k
}

func randTy(depth int, pool []*Struct) *Ty {
	r := rng.Intn(100)
	if depth <= 0 || r < 45 {
		return randScalar()
	}
	switch {
	case r < 60:
		e := randElem(depth-1, pool)
		if rng.Intn(3) == 0 {
			return set(e)
		}
		return list(e)
	case r < 78:
		return mapOf(randKey(pool), randElem(depth-1, pool))
	case r < 90 && len(pool) > 0:
		return ptr(sref(pool[rng.Intn(len(pool))]))
	case len(pool) > 0:
		return sref(pool[rng.Intn(len(pool))])
	}
	return randScalar()
}

func randElem(depth int, pool []*Struct) *Ty {
	t := randTy(depth, pool)
	return t
}

func groupRandom(n, maxDepth int) {
	pool := []*Struct{leaf, leafInit, leafHolder}
	for i := 0; i < n; i++ {
		s := newStruct("random")
		s.HasInit = rng.Intn(4) == 0
		nf := 1 + rng.Intn(8)
		used := map[int]bool{}
		selfOK := rng.Intn(3) == 0
		for j := 0; j < nf; j++ {
			id := 0
			for {
				switch rng.Intn(6) {
				case 0:
					id = []int{0, 63, 64, 65, 127, 128, 255, 256, 32767, 32768, 65534, 65535}[rng.Intn(12)]
				default:
					id = 1 + rng.Intn(40)
				}
				if !used[id] {
					break
				}
			}
			used[id] = true
			p := pool
			if selfOK {
				p = append(append([]*Struct{}, pool...), s)
			}
			t := randTy(maxDepth, p)
			// by-value self reference is illegal Go
			if containsByValue(t, s.Sid) {
				t = ptr(sref(s))
			}
			req := []string{"default", "required", "optional"}[rng.Intn(3)]
			if t.K == "ptr" && t.Elem.K != "struct" {
				req = "optional"
			}
			var opts []string
			isStr := t.K == "prim" && t.Kind == "string" || (t.K == "slice" && t.Elem.Name == "uint8" && t.Elem.K == "prim") ||
				(t.K == "ptr" && t.Elem.K == "prim" && t.Elem.Kind == "string")
			if isStr && rng.Intn(4) == 0 {
				opts = append(opts, "nocopy")
			}
			if t.K == "prim" && t.Kind != "bool" && t.Kind != "string" && t.Kind != "float64" && t.Name == t.Kind && rng.Intn(3) == 0 {
				// scalar pointer variant
				if rng.Intn(2) == 0 {
					t = ptr(t)
					req = "optional"
				}
			}
			f := s.add(s.nextName(), t, id, req, opts...)
			if s.HasInit && rng.Intn(2) == 0 {
				if d, dv, ok := dfltFor(t, rng.Intn(3) == 0); ok {
					f.Dflt, f.DfltVal = d, dv
				}
			}
		}
		if rng.Intn(4) == 0 {
			s.addHolder()
		}
		pool = append(pool, s)
	}
}

func containsByValue(t *Ty, sid int) bool {
	switch t.K {
	case "struct":
		return t.Sid == sid
	case "arr":
		return containsByValue(t.Elem, sid)
	}
	return false
}

// user code that fails during a descriptor build (C07 / C08, D21): graphs like groupGraphs, all
// members valid, some with an InitDefault that panics while universe.Boom is set.  The first graph
// is the shape of D21: Outer{*Inner, *Leaf} with a panicking Leaf.  Own random stream: the groups
// before keep their members.
func groupBoom(seed int64, g, m int) {
	r := rand.New(rand.NewSource(seed*7919 + 13))
	{
		inner, leaf, outer := newStruct("boom"), newStruct("boom"), newStruct("boom")
		inner.add("V", prim("int32"), 1, "default")
		leaf.add("X", prim("int64"), 1, "default")
		leaf.HasInit, leaf.Boom = true, true
		leaf.Fields[0].Dflt, leaf.Fields[0].DfltVal = "5", "n5"
		outer.add("A", ptr(sref(inner)), 1, "optional")
		outer.add("B", ptr(sref(leaf)), 2, "optional")
	}
	for gi := 0; gi < g; gi++ {
		var ms []*Struct
		for i := 0; i < m; i++ {
			ms = append(ms, newStruct("boom"))
		}
		nb := 1 + r.Intn(2)
		for i := 0; i < nb; i++ {
			b := ms[r.Intn(m)]
			b.HasInit, b.Boom = true, true
		}
		for i, st := range ms {
			st.add("V", prim("int32"), 1, "default")
			if st.Boom {
				st.Fields[0].Dflt, st.Fields[0].DfltVal = "7", "n7"
			}
			ne := 1 + r.Intn(3)
			for e := 0; e < ne; e++ {
				j := r.Intn(m)
				var t *Ty
				req := "default"
				switch r.Intn(5) {
				case 0:
					if j < i {
						t = sref(ms[j])
					} else {
						t = ptr(sref(ms[j]))
						req = "optional"
					}
				case 1:
					t = ptr(sref(ms[j]))
					req = "optional"
				case 2:
					t = list(ptr(sref(ms[j])))
				case 3:
					t = mapOf(prim("string"), ptr(sref(ms[j])))
				default:
					if j < i {
						t = list(sref(ms[j]))
					} else {
						t = set(ptr(sref(ms[j])))
					}
				}
				st.add(fmt.Sprintf("E%d", e), t, 2+e, req)
			}
		}
	}
}

// fields of anonymous struct type (`X struct{...}`): the annotation may give them any name, bare or
// package-qualified (D23: the qualified spelling used to be rejected), at every position
func groupAnon() {
	an := newStruct("anon")
	an.Anonymous = true
	an.add("V", prim("int32"), 1, "default")
	an.add("S", prim("string"), 2, "optional")
	ref := func(ann string) *Ty { t := sref(an); t.Ann = ann; return t }
	h := newStruct("anon")
	h.add("X", ref("Item"), 1, "default")
	h.add("N", prim("int32"), 2, "default")
	h = newStruct("anon")
	h.add("X", ref("base.Item"), 1, "default")
	h.add("N", prim("int32"), 2, "default")
	h = newStruct("anon")
	h.add("L", list(ref("base.Item")), 1, "default")
	h.add("S", set(ptr(ref("t.Item"))), 2, "default")
	h = newStruct("anon")
	h.add("M", mapOf(prim("string"), ptr(ref("str.Item"))), 1, "default")
	h.add("P", ptr(ref("i.Item")), 2, "optional")
	h = newStruct("anon")
	h.add("M", mapOf(ptr(ref("Item")), list(ref("a.B"))), 1, "default")
	// an anonymous struct answers to any name but not to the keyword of another type (D25): rejected
	for _, mk := range []func() *Ty{
		func() *Ty { return ref("i64") }, func() *Ty { return ref("string") }, func() *Ty { return ptr(ref("double")) },
		func() *Ty { return list(ref("string")) }, func() *Ty { return mapOf(prim("string"), ref("bool")) },
		func() *Ty { return ref("list") }, func() *Ty { return ref("pkg.binary") }} {
		b := newStruct("anon")
		b.Accept = false
		b.add("Ok", prim("int32"), 1, "default")
		t := mk()
		req := "default"
		if t.K == "ptr" {
			req = "optional"
		}
		b.add("X", t, 2, req)
	}
	// a defined byte-slice type (json.RawMessage, net.IP, type Blob []byte) is a binary like []byte: as a field,
	// a list element and above all a map value under every key kind (T2 took the string routine for it)
	{
		blob := func() *Ty { t := binary(); t.Named = "BlobT"; return t }
		h = newStruct("anon")
		h.add("F", blob(), 1, "default")
		h.add("L", list(blob()), 2, "default")
		h.add("M1", mapOf(prim("string"), blob()), 3, "default")
		h.add("M2", mapOf(prim("int32"), blob()), 4, "default")
		h.add("M3", mapOf(prim("int64"), blob()), 5, "optional")
		h.add("M4", mapOf(prim("bool"), blob()), 6, "default")
		h.add("M5", mapOf(named("int64", "E1"), blob()), 7, "default")
		h.add("M6", mapOf(prim("int8"), blob()), 8, "default")
		h.add("M7", mapOf(prim("int16"), blob()), 9, "default")
		h.add("P", ptr(blob()), 10, "optional")
	}
	// two struct types of the same name, with maps over a defined string type of the same name, that are
	// different types (declared in two functions): anything keyed by a type's printed name confuses them
	for k := 0; k < 2; k++ {
		lt := newStruct("anon")
		lt.Name = "SameT"
		lt.Local = true
		label := func() *Ty { return named("string", "Label") }
		lt.add("M1", mapOf(label(), prim("int32")), 1, "default")
		lt.add("M2", mapOf(prim("int32"), label()), 2, "default")
		lt.add("L", list(label()), 3, "default")
		lt.add("K", label(), 4, "default")
	}
	// identifiers with underscores (what thriftgo emits for foo_bar.thrift): qualifiers and type names
	// (R4 made `_` a separator)
	h = newStruct("anon")
	{
		t1 := sref(leaf)
		t1.Ann = "user_info." + leaf.Name
		h.add("A", ptr(t1), 1, "optional")
		t2 := sref(leaf)
		t2.Ann = "_x." + leaf.Name
		h.add("B", list(ptr(t2)), 2, "default")
		e := named("int64", "E_U")
		e.Ann = "E_U"
		h.add("C", e, 3, "default")
		e2 := named("int64", "E_U")
		e2.Ann = "a_b_c.E_U"
		h.add("D", mapOf(prim("string"), e2), 4, "default")
	}
	// Go type names as redundant annotations: every predeclared name leaves the type as it is (D24: `int`
	// named `int` used to become a 32-bit enum), a defined integer type named in its annotation is an enum
	goName := func(kind string) *Ty { t := prim(kind); t.Ann = kind; return t }
	h = newStruct("anon")
	h.add("A", goName("int"), 1, "default")
	h.add("B", list(goName("int")), 2, "default")
	h.add("C", mapOf(goName("int"), prim("string")), 3, "default")
	h.add("D", goName("int64"), 4, "default")
	h.add("E", goName("int32"), 5, "optional")
	h.add("F", goName("float64"), 6, "default")
	h.add("G", goName("bool"), 7, "default")
	h.add("H", ptr(goName("int")), 8, "optional")
}

// ---------- emission ----------

func emit(outDir string) {
	var g strings.Builder
	g.WriteString("// Code generated by gentypes. DO NOT EDIT.\n\npackage universe\n\nimport (\n\t\"math\"\n\t\"reflect\"\n\t\"unsafe\"\n)\n\n")
	g.WriteString("var _ = math.Pi\nvar _ unsafe.Pointer\n\n")
	g.WriteString("type E1 int64\ntype E2 int64\ntype E3 int64\ntype NB uint8\ntype C1 int\ntype E_U int64\ntype AttrsT map[string]string\ntype IDsT []int64\ntype BlobT []byte\n\n")
	var u strings.Builder
	for _, s := range structs {
		if s.Local {
			// two types of the same name and shape that are not the same type (U1 keyed a pool by Type.String())
			fmt.Fprintf(&u, "struct %d %s 0\n", s.Sid, s.Name)
			fmt.Fprintf(&g, "func localType%d() reflect.Type {\n\ttype Label string\n\ttype %s struct {\n", s.Sid, s.Name)
			for _, f := range s.Fields {
				fmt.Fprintf(&g, "\t\t%s %s `%s`\n", f.Name, f.Ty.GoExpr(), f.Tag)
				fmt.Fprintf(&u, "field %d %s 1 0 %s %s -\n", s.Sid, f.Name, f.Ty.Proto(), hex.EncodeToString([]byte(f.Tag)))
			}
			fmt.Fprintf(&g, "\t}\n\treturn reflect.TypeOf(%s{})\n}\n\n", s.Name)
			continue
		}
		if s.Anonymous {
			// no declaration: the type is written out wherever it is used
			fmt.Fprintf(&u, "struct %d - 0\n", s.Sid)
			for _, f := range s.Fields {
				exp := 1
				if f.Name[0] < 'A' || f.Name[0] > 'Z' {
					exp = 0
				}
				tagh := "-"
				if f.Tag != "" {
					tagh = hex.EncodeToString([]byte(f.Tag))
				}
				fmt.Fprintf(&u, "field %d %s %d 0 %s %s -\n", s.Sid, f.Name, exp, f.Ty.Proto(), tagh)
			}
			continue
		}
		fmt.Fprintf(&g, "type %s struct {\n", s.Name)
		init := 0
		if s.HasInit {
			init = 1
		}
		if s.Boom {
			init = 2
		}
		fmt.Fprintf(&u, "struct %d %s %d\n", s.Sid, s.Name, init)
		for _, f := range s.Fields {
			name := f.Name
			exp := 1
			emb := 0
			if f.Embedded {
				emb = 1
				name = f.Ty.Name
				if f.Ty.K == "ptr" {
					name = f.Ty.Elem.Name
				}
				if f.Ty.Named != "" {
					name = f.Ty.Named
				}
				fmt.Fprintf(&g, "\t%s `%s`\n", f.Ty.GoExpr(), f.Tag)
			} else {
				if f.Tag != "" {
					fmt.Fprintf(&g, "\t%s %s `%s`\n", name, f.Ty.GoExpr(), f.Tag)
				} else {
					fmt.Fprintf(&g, "\t%s %s\n", name, f.Ty.GoExpr())
				}
			}
			if name[0] < 'A' || name[0] > 'Z' {
				exp = 0
			}
			tagh := "-"
			if f.Tag != "" {
				tagh = hex.EncodeToString([]byte(f.Tag))
			}
			d := "-"
			if f.DfltVal != "" {
				d = f.DfltVal
			}
			fmt.Fprintf(&u, "field %d %s %d %d %s %s %s\n", s.Sid, name, exp, emb, f.Ty.Proto(), tagh, d)
		}
		g.WriteString("}\n\n")
		if s.HasInit {
			fmt.Fprintf(&g, "func (p *%s) InitDefault() {\n", s.Name)
			if s.Boom {
				g.WriteString("\tif Boom.Load() {\n\t\tpanic(\"universe: defaults not ready\")\n\t}\n")
			}
			for _, f := range s.Fields {
				if f.Dflt != "" {
					fmt.Fprintf(&g, "\tp.%s = %s\n", f.Name, f.Dflt)
				}
			}
			g.WriteString("}\n\n")
		}
	}
	g.WriteString("func init() {\n\tStructs = []UStruct{\n")
	for _, s := range structs {
		type fi struct {
			name string
			id   int
			idx  int
		}
		var fs []fi
		holder := false
		for i, f := range s.Fields {
			if f.Name == "_unknownFields" {
				holder = true
			}
			if f.InSchema && s.Accept {
				fs = append(fs, fi{f.Name, f.ID, i})
			}
		}
		sort.Slice(fs, func(i, j int) bool { return fs[i].id < fs[j].id })
		tyExpr := "reflect.TypeOf(" + s.Name + "{})"
		if s.Anonymous {
			tyExpr = "reflect.TypeOf(" + s.literal() + "{})"
		}
		if s.Local {
			tyExpr = fmt.Sprintf("localType%d()", s.Sid)
		}
		fmt.Fprintf(&g, "\t\t{Sid: %d, Name: %q, Type: %s, Accept: %v, Holder: %v, Group: %q, Writer: %d, Boom: %v, Fields: []UField{",
			s.Sid, s.Name, tyExpr, s.Accept, holder, s.Group, s.Writer, s.Boom)
		for _, f := range fs {
			fmt.Fprintf(&g, "{%q, %d, %d}, ", f.name, f.id, f.idx)
		}
		g.WriteString("}},\n")
	}
	g.WriteString("\t}\n}\n")
	must(os.WriteFile(filepath.Join(outDir, "universe", "universe_gen.go"), []byte(g.String()), 0o644))
	must(os.WriteFile(filepath.Join(outDir, "universe.txt"), []byte(u.String()), 0o644))
}

func must(err error) {
	if err != nil {
		fmt.Fprintln(os.Stderr, err)
		os.Exit(1)
	}
}

func main() {
	seed := flag.Int64("seed", 1, "seed")
	out := flag.String("out", ".", "harness module directory")
	nrand := flag.Int("nrand", 40, "number of random structs")
	depth := flag.Int("depth", 3, "max nesting of random types")
	flag.Parse()
	rng = rand.New(rand.NewSource(*seed))
	groupLeaves()
	groupScalars()
	groupZeroishDefaults()
	groupPointerDefaults()
	groupLists()
	groupMaps()
	groupRecursive()
	groupIDs()
	groupByValue()
	groupNoCopy()
	groupPtrBinary()
	groupEvoMix()
	groupShapes()
	groupWide()
	groupWrapped()
	groupEvolution()
	groupSpellings()
	groupInvalid()
	groupClusters(10, 14)
	groupGraphs(8, 7)
	groupRandom(*nrand, *depth)
	groupBoom(*seed, 4, 5)
	groupAnon()
	groupHuge()
	emit(*out)
	fmt.Printf("gentypes: %d structs\n", len(structs))
}
