// harness: runs the real cloudwego/frugal code (built from /repo's working tree with
// -tags verif) on generated types / values / byte strings / histories and writes a transcript
// that the Lean model driver checks line by line.
package main

import (
	"bufio"
	"bytes"
	"flag"
	"fmt"
	"math/rand"
	"os"
	"sort"
	"strings"

	"github.com/cloudwego/frugal/verifharness/universe"
)

func newBufH() *H {
	b := &bytes.Buffer{}
	return &H{out: bufio.NewWriter(b), stats: map[string]int{}, buf: b}
}

func main() {
	mode := flag.String("mode", "C01", "property / op stream to run")
	seed := flag.Int64("seed", 1, "PRNG seed")
	tier := flag.String("tier", "quick", "quick | thorough")
	outp := flag.String("out", "", "transcript file (default stdout)")
	curp := flag.String("cur", "", "file that always holds the operation being executed")
	scale := flag.Int("n", 0, "scale override")
	linesp := flag.String("lines", "", "file with operation lines (mode lines)")
	flag.Parse()
	initTypes()

	var w *os.File = os.Stdout
	if *outp != "" {
		f, err := os.Create(*outp)
		if err != nil {
			panic(err)
		}
		defer f.Close()
		w = f
	}
	h := &H{out: bufio.NewWriterSize(w, 1<<20), stats: map[string]int{}}
	if *curp != "" {
		f, err := os.Create(*curp)
		if err == nil {
			h.cur = f
		}
	}
	n := 3
	if *tier == "thorough" {
		n = 40
	}
	if *scale > 0 {
		n = *scale
	}
	c := &ctx{h: h, r: rand.New(rand.NewSource(*seed)), tier: *tier, n: n}
	all := c.accepted()
	switch *mode {
	case "C01":
		c.roundTrip(all, n)
		c.roundTrip(c.accepted("huge"), 1) // fields at offsets beyond 65535 (U2 kept field offsets in 16 bits)
	case "C02":
		c.encodeSide(c.accepted("maps", "lists", "scalars", "byvalue", "recursive", "spellings", "random", "leaf", "ids", "wide", "defaults", "anon"), n, false)
	case "C03":
		c.decodeSide(c.accepted("evolution", "evomix", "empty", "recursive", "maps", "lists", "scalars", "byvalue", "ids", "random", "defaults", "wide"), n, false)
	case "C04":
		c.encodeSide(all, n, true)
		c.encodeSide(c.accepted("huge"), 1, true)
		c.bigLenProbe()
	case "C05":
		us := c.accepted("evolution", "evomix", "empty", "recursive", "maps", "lists", "scalars", "byvalue", "ids", "random", "nocopy")
		c.malformed(us, (n+2)/3)
		c.allocBound(c.accepted("lists", "maps")[:4])
		c.ampProbe()
	case "C06":
		c.walkAll = true
		c.roundTrip(c.accepted("lists", "maps", "scalars", "byvalue", "recursive", "nocopy", "ptrbinary", "random", "defaults"), n)
		c.decodeSide(c.accepted("evolution", "nocopy", "ptrbinary", "scalars", "defaults", "byvalue", "leaf", "recursive", "lists", "maps"), n, false)
		c.spanOps(40 * n)
	case "C07":
		c.cacheHistory(60 * n)
		c.resolveAll(true)
		c.history(all, 400*n)
		c.argOps()
		c.poolResidue(c.accepted("ids", "recursive", "leaf", "evolution", "scalars"), 200*n)
		c.resolveAll(false)
		c.staleProbe()
	case "C08":
		workers := 8
		if *tier == "thorough" {
			workers = 32
		}
		c.errorPathStorm(workers)
		c.clusterFirstUse(c.h)
		c.concurrent(all, workers, 60*n)
		c.bigByValueStorm()
		c.descMapOps(200 * n)
	case "C09":
		c.requiredFields(c.accepted("ids", "recursive", "leaf", "byvalue", "evolution", "random", "scalars", "maps", "spellings", "wide"), 3*n)
		c.poolResidue(c.accepted("ids", "recursive", "leaf", "evolution"), 150*n)
		c.bitsetOps(40 * n)
	case "C10":
		c.encodeSide(c.accepted("defaults", "scalars", "leaf", "byvalue"), 4*n, false)
		c.decodeSide(c.accepted("defaults", "byvalue", "maps", "lists", "nocopy"), 2*n, false)
		c.roundTrip(c.accepted("defaults", "byvalue"), 2*n)
	case "C11":
		c.hugeHolder()
		c.decodeSide(c.accepted("evolution", "evomix", "empty", "recursive", "leaf", "byvalue", "random", "wide", "spellings"), 3*n, true)
	case "C12":
		c.resolveAll(false)
		c.encodeSide(c.accepted("spellings", "anon"), 2*n, false)
		c.roundTrip(c.accepted("spellings", "anon"), n)
	case "C13":
		c.cacheHistory(60 * n)
		c.resolveAll(true)
		c.argOps()
		c.resolveAll(false)
		c.history(c.accepted("leaf", "scalars"), 30)
		c.resolveAll(true)
	case "C14":
		c.roundTrip(c.accepted("nocopy", "ptrbinary", "random"), 4*n)
		c.decodeSide(c.accepted("nocopy", "ptrbinary"), 6*n, false)
	case "C15":
		c.depthProbe(c.accepted("recursive")[0])
	case "C16":
		c.bigByValueStorm()
		c.encodeSide(all, n, true)
		c.roundTrip(c.accepted("evolution", "leaf", "byvalue", "random"), n)
	case "C17":
		c.legacy(all)
	case "lines":
		c.runLines(*linesp)
	case "C17child":
		c.legacyChild(all)
	case "C18":
		c.allocFree(all, n)
	default:
		fmt.Fprintln(os.Stderr, "unknown mode", *mode)
		os.Exit(2)
	}
	h.out.Flush()
	var keys []string
	for k := range h.stats {
		keys = append(keys, k)
	}
	sort.Strings(keys)
	var parts []string
	for _, k := range keys {
		parts = append(parts, fmt.Sprintf("%s=%d", k, h.stats[k]))
	}
	fmt.Fprintf(os.Stderr, "HARNESS mode=%s seed=%d tier=%s ops=%d structs=%d %s\n", *mode, *seed, *tier, h.nops, len(universe.Structs), strings.Join(parts, " "))
}
