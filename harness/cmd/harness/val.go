package main

// Random Go values for the universe's types (boundary biased) and their printing in the
// protocol's value syntax (see lean/Frugal/Proto.lean).

import (
	"encoding/hex"
	"math"
	"math/rand"
	"reflect"
	"sort"
	"strconv"
	"strings"
	"unsafe"

	"github.com/cloudwego/frugal/verifharness/universe"
)

var byType = map[reflect.Type]*universe.UStruct{}

func initTypes() {
	for i := range universe.Structs {
		u := &universe.Structs[i]
		byType[u.Type] = u
	}
}

type genCfg struct {
	r        *rand.Rand
	maxLen   int  // container length scale
	minLen   int  // containers get at least this many elements (count-corruption streams)
	minimal  bool // everything below the outermost container takes its smallest encoding (count-check boundary)
	zeroLeaf bool // (internal) inside such a container
	bigStr   bool // allow strings straddling allocator thresholds
	depth    int  // remaining struct nesting budget
	enum32   bool // keep enum values within int32
	holders  bool // fill _unknownFields
	spareCap bool // holders get spare capacity
	h        *H   // records the backing arrays of spare-capacity holders
}

var strLens = []int{0, 0, 1, 2, 7, 31, 255, 256, 257, 300, 2047, 2048, 2049, 5000}

func (g *genCfg) length() int {
	n := g.length0()
	if n < g.minLen {
		n = g.minLen
	}
	return n
}

func (g *genCfg) length0() int {
	r := g.r
	switch r.Intn(10) {
	case 0:
		return 0
	case 1:
		return 1
	case 2:
		return 2
	case 3:
		return 8
	case 4:
		return 9
	case 5:
		if g.maxLen >= 100 {
			return 100 + r.Intn(50)
		}
		return g.maxLen
	default:
		return r.Intn(g.maxLen + 1)
	}
}

func (g *genCfg) i64() int64 {
	r := g.r
	switch r.Intn(8) {
	case 0:
		return 0
	case 1:
		return 1
	case 2:
		return -1
	case 3:
		return math.MinInt64
	case 4:
		return math.MaxInt64
	case 5:
		return int64(int32(r.Uint32()))
	default:
		return int64(r.Uint64())
	}
}

func (g *genCfg) f64() float64 {
	r := g.r
	switch r.Intn(10) {
	case 0:
		return 0
	case 1:
		return math.Copysign(0, -1)
	case 2:
		return math.NaN()
	case 3:
		return math.Float64frombits(0x7ff8000000000000 | uint64(r.Intn(1000)+1))
	case 4:
		return math.Inf(1)
	case 5:
		return math.Inf(-1)
	case 6:
		return math.Float64frombits(uint64(r.Intn(1000) + 1)) // subnormal
	case 7:
		return 1.5
	default:
		return math.Float64frombits(r.Uint64())
	}
}

func (g *genCfg) bytes() []byte {
	n := strLens[g.r.Intn(len(strLens))]
	if n > 40 && (!g.bigStr || g.r.Intn(8) != 0) {
		n = g.r.Intn(12)
	}
	b := make([]byte, n)
	g.r.Read(b)
	return b
}

func isEnumType(t reflect.Type) bool {
	return (t.Kind() == reflect.Int64 && t.Name() != "int64") || (t.Kind() == reflect.Int && t.Name() != "int")
}

// gen fills v (addressable) with a random value.
func (g *genCfg) gen(v reflect.Value) {
	t := v.Type()
	if g.zeroLeaf {
		// smallest encodings: empty strings and containers (non-nil), zero scalars, nil pointers
		switch t.Kind() {
		case reflect.Slice:
			v.Set(reflect.MakeSlice(t, 0, 0))
			return
		case reflect.Map:
			v.Set(reflect.MakeMap(t))
			return
		case reflect.Struct:
			if u := byType[t]; u != nil {
				for _, f := range u.Fields {
					g.gen(v.Field(f.Index))
				}
			}
			return
		default:
			return
		}
	}
	switch t.Kind() {
	case reflect.Bool:
		v.SetBool(g.r.Intn(2) == 0)
	case reflect.Int8, reflect.Int16, reflect.Int32, reflect.Int64, reflect.Int:
		x := g.i64()
		if isEnumType(t) && g.enum32 {
			x = int64(int32(x))
		}
		v.SetInt(x) // truncates to the width
		if t.Kind() != reflect.Int64 && t.Kind() != reflect.Int {
			v.SetInt(truncInt(x, t.Bits()))
		}
	case reflect.Float64:
		v.SetFloat(g.f64())
	case reflect.String:
		v.SetString(string(g.bytes()))
	case reflect.Ptr:
		if g.r.Intn(4) == 0 && g.minLen == 0 {
			return // nil
		}
		if t.Elem().Kind() == reflect.Struct && g.depth <= 0 {
			return
		}
		p := reflect.New(t.Elem())
		g.gen(p.Elem())
		v.Set(p)
	case reflect.Slice:
		if t.Elem().Kind() == reflect.Uint8 {
			switch g.r.Intn(6) {
			case 0: // nil
			case 1:
				v.Set(reflect.ValueOf([]byte{}).Convert(t))
			default:
				v.Set(reflect.ValueOf(g.bytes()).Convert(t))
			}
			return
		}
		if g.r.Intn(6) == 0 && g.minLen == 0 {
			return // nil
		}
		n := g.length()
		if t.Elem().Kind() != reflect.Slice && elemHasStruct(t.Elem()) {
			if g.depth <= 0 {
				n = 0
			} else if n > 3 {
				n = g.r.Intn(4)
			}
		}
		s := reflect.MakeSlice(t, n, n+g.r.Intn(3))
		sub := *g
		sub.maxLen = g.maxLen / 3
		sub.zeroLeaf = g.minimal
		for i := 0; i < n; i++ {
			sub.gen(s.Index(i))
		}
		// repeated elements: sibling maps with the same keys, equal strings, equal structs
		if n >= 2 && g.r.Intn(4) == 0 {
			for i := 1; i < n; i++ {
				if g.r.Intn(2) == 0 {
					s.Index(i).Set(s.Index(0))
				}
			}
		}
		v.Set(s)
	case reflect.Map:
		if g.r.Intn(6) == 0 && g.minLen == 0 {
			return
		}
		n := g.length()
		if elemHasStruct(t.Elem()) || elemHasStruct(t.Key()) {
			if g.depth <= 0 {
				n = 0
			} else if n > 3 {
				n = g.r.Intn(4)
			}
		}
		// maps as programs build them: without a size hint and by repeated insertion, so that some are
		// encoded while the runtime is still moving entries to a grown table (entry counts just past
		// the load-factor thresholds 6.5 * 2^B); a pre-sized map is never in that state
		growth := false
		if !elemHasStruct(t.Elem()) && !elemHasStruct(t.Key()) && t.Elem().Kind() != reflect.Map && t.Elem().Kind() != reflect.Slice && !g.minimal && g.r.Intn(6) == 0 {
			n = []int{14, 27, 28, 53, 54, 55, 56, 105, 107, 110, 113}[g.r.Intn(11)]
			growth = true
		}
		m := reflect.MakeMapWithSize(t, n)
		if growth || g.r.Intn(2) == 0 {
			m = reflect.MakeMap(t)
		}
		sub := *g
		sub.maxLen = g.maxLen / 3
		sub.zeroLeaf = g.minimal
		ksub := sub
		ksub.zeroLeaf = false // keys stay distinct
		for i := 0; i < n || (growth && m.Len() < n && i < 6*n); i++ {
			k := reflect.New(t.Key()).Elem()
			ksub.gen(k)
			if k.Kind() == reflect.Ptr && k.IsNil() {
				// nil pointer keys: keep them rare but possible only once
				k.Set(reflect.New(t.Key().Elem()))
			}
			e := reflect.New(t.Elem()).Elem()
			sub.gen(e)
			m.SetMapIndex(k, e)
		}
		// maps with a history: some entries deleted again (tombstones; the count is below what the
		// table was grown for)
		if m.Len() >= 4 && g.r.Intn(5) == 0 {
			keys := m.MapKeys()
			for i, k := range keys {
				if i%3 == 0 && m.Len() > g.minLen {
					m.SetMapIndex(k, reflect.Value{})
				}
			}
		}
		v.Set(m)
	case reflect.Struct:
		u := byType[t]
		sub := *g
		sub.depth = g.depth - 1
		if u != nil {
			for _, f := range u.Fields {
				sub.gen(v.Field(f.Index))
			}
			// values equal to the declared defaults (the encoder omits such optional fields), taken from
			// a default-initialised exemplar so that strings share their storage with the default,
			// and proper prefixes of default strings (same data pointer, shorter)
			if ini, ok := reflect.New(t).Interface().(interface{ InitDefault() }); ok && g.r.Intn(3) == 0 {
				ini.InitDefault()
				ex := reflect.ValueOf(ini).Elem()
				for _, f := range u.Fields {
					fv, dv := v.Field(f.Index), ex.Field(f.Index)
					switch fv.Kind() {
					case reflect.Bool, reflect.Int8, reflect.Int16, reflect.Int32, reflect.Int64, reflect.Int, reflect.Float64:
						if g.r.Intn(2) == 0 {
							fv.Set(dv)
						}
					case reflect.String:
						switch g.r.Intn(4) {
						case 0, 1:
							fv.Set(dv)
						case 2:
							if dv.Len() > 0 {
								fv.SetString(dv.String()[:g.r.Intn(dv.Len())])
							}
						}
					case reflect.Slice:
						if fv.Type().Elem().Kind() == reflect.Uint8 && g.r.Intn(2) == 0 {
							fv.Set(dv)
						}
					}
				}
			}
			if u.Holder && g.holders && g.r.Intn(2) == 0 {
				hf := v.FieldByName("_unknownFields")
				raw := randUnknownFields(g.r, 200, 100, 1+g.r.Intn(3))
				if g.spareCap {
					back := make([]byte, len(raw)+8)
					for i := range back {
						back[i] = 0xEE
					}
					copy(back, raw)
					raw = back[:len(raw)]
					if g.h != nil {
						g.h.spares = append(g.h.spares, back[len(raw):])
					}
				}
				setUnexported(hf, reflect.ValueOf(raw))
			}
		}
	}
}

func truncInt(x int64, bits int) int64 {
	switch bits {
	case 8:
		return int64(int8(x))
	case 16:
		return int64(int16(x))
	case 32:
		return int64(int32(x))
	}
	return x
}

func elemHasStruct(t reflect.Type) bool {
	switch t.Kind() {
	case reflect.Struct:
		return true
	case reflect.Ptr, reflect.Slice:
		if t.Kind() == reflect.Slice && t.Elem().Kind() == reflect.Uint8 {
			return false
		}
		return elemHasStruct(t.Elem())
	case reflect.Map:
		return elemHasStruct(t.Key()) || elemHasStruct(t.Elem())
	}
	return false
}

func setUnexported(f reflect.Value, x reflect.Value) {
	reflect.NewAt(f.Type(), unsafe.Pointer(f.UnsafeAddr())).Elem().Set(x)
}

func getUnexportedBytes(f reflect.Value) []byte {
	return *(*[]byte)(unsafe.Pointer(f.UnsafeAddr()))
}

// ---------- printing ----------

type showCfg struct {
	buf    uintptr // start of the input buffer (0 = no provenance)
	buflen int
}

func (c *showCfg) show(sb *strings.Builder, v reflect.Value) {
	t := v.Type()
	switch t.Kind() {
	case reflect.Bool:
		// the raw byte in memory
		nv := reflect.New(t).Elem()
		nv.Set(v)
		raw := *(*byte)(unsafe.Pointer(nv.UnsafeAddr()))
		sb.WriteString("n" + strconv.Itoa(int(raw)))
	case reflect.Int8:
		sb.WriteString("n" + strconv.FormatUint(uint64(uint8(v.Int())), 10))
	case reflect.Int16:
		sb.WriteString("n" + strconv.FormatUint(uint64(uint16(v.Int())), 10))
	case reflect.Int32:
		sb.WriteString("n" + strconv.FormatUint(uint64(uint32(v.Int())), 10))
	case reflect.Int64, reflect.Int:
		sb.WriteString("n" + strconv.FormatUint(uint64(v.Int()), 10))
	case reflect.Float64:
		sb.WriteString("n" + strconv.FormatUint(math.Float64bits(v.Float()), 10))
	case reflect.String:
		s := v.String()
		if off, ok := c.within(uintptr(unsafe.Pointer(unsafe.StringData(s))), len(s)); ok {
			sb.WriteString("v" + strconv.Itoa(off) + ":" + hex.EncodeToString([]byte(s)))
		} else {
			sb.WriteString("s" + hex.EncodeToString([]byte(s)))
		}
	case reflect.Ptr:
		if v.IsNil() {
			sb.WriteString("N")
			return
		}
		sb.WriteString("P(")
		c.show(sb, v.Elem())
		sb.WriteString(")")
	case reflect.Slice:
		if t.Elem().Kind() == reflect.Uint8 {
			if v.IsNil() {
				sb.WriteString("B")
				return
			}
			b := v.Bytes()
			if off, ok := c.within(uintptr(unsafe.Pointer(unsafe.SliceData(b))), len(b)); ok {
				sb.WriteString("w" + strconv.Itoa(off) + ":" + hex.EncodeToString(b))
			} else {
				sb.WriteString("b" + hex.EncodeToString(b))
			}
			return
		}
		if v.IsNil() {
			sb.WriteString("l")
			return
		}
		sb.WriteString("L(")
		for i := 0; i < v.Len(); i++ {
			if i > 0 {
				sb.WriteString(",")
			}
			c.show(sb, v.Index(i))
		}
		sb.WriteString(")")
	case reflect.Map:
		if v.IsNil() {
			sb.WriteString("m")
			return
		}
		sb.WriteString("M(")
		it := v.MapRange()
		var ents []string
		for it.Next() {
			var eb strings.Builder
			c.show(&eb, it.Key())
			eb.WriteString(":")
			c.show(&eb, it.Value())
			ents = append(ents, eb.String())
		}
		sort.Strings(ents)
		sb.WriteString(strings.Join(ents, ","))
		sb.WriteString(")")
	case reflect.Struct:
		u := byType[t]
		sb.WriteString("S(")
		if u != nil {
			for i, f := range u.Fields {
				if i > 0 {
					sb.WriteString(",")
				}
				c.show(sb, v.Field(f.Index))
			}
		}
		sb.WriteString(";")
		if u != nil && u.Holder {
			if !v.CanAddr() {
				nv := reflect.New(t).Elem()
				nv.Set(v)
				v = nv
			}
			sb.WriteString(hex.EncodeToString(getUnexportedBytes(v.FieldByName("_unknownFields"))))
		}
		sb.WriteString(")")
	default:
		sb.WriteString("?")
	}
}

func (c *showCfg) within(p uintptr, n int) (int, bool) {
	if c.buf == 0 || n == 0 {
		return 0, false
	}
	if p >= c.buf && p+uintptr(n) <= c.buf+uintptr(c.buflen) {
		return int(p - c.buf), true
	}
	return 0, false
}

func showValue(v reflect.Value) string {
	var sb strings.Builder
	(&showCfg{}).show(&sb, v)
	return sb.String()
}

func showDecoded(v reflect.Value, buf []byte) string {
	var sb strings.Builder
	c := &showCfg{}
	if len(buf) > 0 {
		c.buf = uintptr(unsafe.Pointer(&buf[0]))
		c.buflen = len(buf)
	}
	c.show(&sb, v)
	return sb.String()
}
