package main

// Parser for the protocol's value syntax into Go values (guided by the Go type), and the
// `lines` mode: execute operation lines taken verbatim from a transcript / replay file.

import (
	"bufio"
	"encoding/hex"
	"fmt"
	"math"
	"os"
	"reflect"
	"strconv"
	"strings"
	"unsafe"

	"github.com/cloudwego/frugal/verifharness/universe"
)

type vparser struct {
	s string
	i int
}

func (p *vparser) peek() byte {
	if p.i < len(p.s) {
		return p.s[p.i]
	}
	return 0
}

func (p *vparser) expect(c byte) {
	if p.peek() != c {
		panic(fmt.Sprintf("value syntax: expected %q at %d in %.60q", c, p.i, p.s))
	}
	p.i++
}

func (p *vparser) nat() uint64 {
	j := p.i
	for j < len(p.s) && p.s[j] >= '0' && p.s[j] <= '9' {
		j++
	}
	v, err := strconv.ParseUint(p.s[p.i:j], 10, 64)
	if err != nil {
		panic("value syntax: number")
	}
	p.i = j
	return v
}

func (p *vparser) hexrun() []byte {
	j := p.i
	for j+1 < len(p.s) && ishex(p.s[j]) && ishex(p.s[j+1]) {
		j += 2
	}
	b, _ := hex.DecodeString(p.s[p.i:j])
	p.i = j
	return b
}

func ishex(c byte) bool { return c >= '0' && c <= '9' || c >= 'a' && c <= 'f' }

// parse into v (addressable)
func (p *vparser) parse(v reflect.Value) {
	t := v.Type()
	c := p.peek()
	p.i++
	switch c {
	case 'n':
		n := p.nat()
		switch t.Kind() {
		case reflect.Bool:
			*(*byte)(unsafe.Pointer(v.UnsafeAddr())) = byte(n)
		case reflect.Int8:
			v.SetInt(int64(int8(n)))
		case reflect.Int16:
			v.SetInt(int64(int16(n)))
		case reflect.Int32:
			v.SetInt(int64(int32(n)))
		case reflect.Int64, reflect.Int:
			v.SetInt(int64(n))
		case reflect.Float64:
			v.SetFloat(math.Float64frombits(n))
		default:
			panic("value syntax: scalar for " + t.String())
		}
	case 's':
		v.SetString(string(p.hexrun()))
	case 'v':
		p.nat()
		p.expect(':')
		v.SetString(string(p.hexrun()))
	case 'b':
		b := p.hexrun()
		if b == nil {
			b = []byte{}
		}
		v.Set(reflect.ValueOf(b).Convert(t))
	case 'w':
		p.nat()
		p.expect(':')
		b := p.hexrun()
		if b == nil {
			b = []byte{}
		}
		v.Set(reflect.ValueOf(b).Convert(t))
	case 'B', 'N', 'l', 'm':
		v.Set(reflect.Zero(t))
	case 'P':
		p.expect('(')
		x := reflect.New(t.Elem())
		p.parse(x.Elem())
		p.expect(')')
		v.Set(x)
	case 'L':
		p.expect('(')
		s := reflect.MakeSlice(t, 0, 0)
		for p.peek() != ')' {
			e := reflect.New(t.Elem()).Elem()
			p.parse(e)
			s = reflect.Append(s, e)
			if p.peek() == ',' {
				p.i++
			}
		}
		p.expect(')')
		v.Set(s)
	case 'M':
		p.expect('(')
		m := reflect.MakeMap(t)
		for p.peek() != ')' {
			k := reflect.New(t.Key()).Elem()
			p.parse(k)
			p.expect(':')
			e := reflect.New(t.Elem()).Elem()
			p.parse(e)
			m.SetMapIndex(k, e)
			if p.peek() == ',' {
				p.i++
			}
		}
		p.expect(')')
		v.Set(m)
	case 'S':
		p.expect('(')
		u := byType[t]
		if u == nil {
			panic("value syntax: unknown struct " + t.String())
		}
		for i, f := range u.Fields {
			if i > 0 {
				p.expect(',')
			}
			p.parse(v.Field(f.Index))
		}
		p.expect(';')
		h := p.hexrun()
		if u.Holder && len(h) > 0 {
			setUnexported(v.FieldByName("_unknownFields"), reflect.ValueOf(h))
		}
		p.expect(')')
	default:
		panic(fmt.Sprintf("value syntax: unexpected %q at %d", c, p.i-1))
	}
}

func parseInto(u *universe.UStruct, s string) reflect.Value {
	pv := reflect.New(u.Type)
	if s == "ZERO" { // replay lines written by the fuzz stage: a zero destination
		return pv
	}
	p := &vparser{s: s}
	p.parse(pv.Elem())
	if p.i != len(s) {
		panic("value syntax: trailing input")
	}
	return pv
}

// runLines executes op lines (only the part before " -> " is used)
func (c *ctx) runLines(path string) {
	f, err := os.Open(path)
	if err != nil {
		panic(err)
	}
	defer f.Close()
	sc := bufio.NewScanner(f)
	sc.Buffer(make([]byte, 1<<20), 1<<28)
	var ks []*kept // decoded (and failed) destinations: checked for stability at the end, as in the streams
	defer func() { c.h.checkKept(ks) }()
	for sc.Scan() {
		ln := sc.Text()
		if k := strings.Index(ln, " -> "); k >= 0 {
			ln = ln[:k]
		}
		tok := strings.Fields(ln)
		if len(tok) < 2 {
			continue
		}
		sid, _ := strconv.Atoi(tok[1])
		switch tok[0] {
		case "resolve":
			c.h.opResolve(universe.BySid(sid))
		case "size":
			u := universe.BySid(sid)
			c.h.opSize(u, parseInto(u, tok[2]), false)
		case "enc":
			u := universe.BySid(sid)
			c.h.opEnc(u, parseInto(u, tok[2]), encOpt{bufLen: -1, extra: 8})
		case "dec":
			u := universe.BySid(sid)
			in := []byte{}
			if tok[2] != "-" {
				in, _ = hex.DecodeString(tok[2])
			}
			if _, _, k := c.h.opDec(u, in, parseInto(u, tok[3]), true); k != nil {
				ks = append(ks, k)
			}
		case "arg":
			if tok[1] == "decstruct" {
				c.h.emit("arg decstruct -> " + decStructByValue())
			}
		case "use":
			c.h.opUse(universe.BySid(sid))
		case "useboom":
			c.h.opUseBoom(universe.BySid(sid), nil)
		case "rt":
			u := universe.BySid(sid)
			c.rtOne(u, parseInto(u, tok[2]), parseInto(u, tok[3]))
		}
	}
}
