package main

// Coverage-guided search for C05 (thorough tier): go's native fuzzer drives DecodeObject on a fixed
// set of destination types. It supports the search for failing inputs; it decides nothing. Oracles
// (all consequences of the C05 theorems): no panic; on success n <= len(input) and the first n bytes
// are a well-formed struct message for an independent parser (C05.success_means_wellformed_prefix);
// decoding exactly that prefix again succeeds with the same count.

import (
	"math/rand"
	"reflect"
	"testing"

	"github.com/cloudwego/frugal"
	"github.com/cloudwego/frugal/verifharness/universe"
)

func fuzzTypes() []*universe.UStruct {
	var out []*universe.UStruct
	want := map[string]bool{"evolution": true, "recursive": true, "maps": true, "lists": true, "scalars": true,
		"nocopy": true, "ptrbinary": true, "byvalue": true, "ids": true, "defaults": true}
	for i := range universe.Structs {
		u := &universe.Structs[i]
		if u.Accept && want[u.Group] {
			out = append(out, u)
		}
	}
	return out
}

func FuzzDecode(f *testing.F) {
	initTypes()
	us := fuzzTypes()
	r := rand.New(rand.NewSource(1))
	g := &genCfg{r: r, maxLen: 3, depth: 2, enum32: true}
	for i, u := range us {
		p := reflect.New(u.Type)
		func() {
			defer func() { recover() }()
			g.gen(p.Elem())
		}()
		if b := encodeQuiet(p); b != nil && len(b) < 600 {
			f.Add(uint16(i), b)
		}
		f.Add(uint16(i), []byte{0})
	}
	f.Fuzz(func(t *testing.T, ti uint16, data []byte) {
		u := us[int(ti)%len(us)]
		dest := reflect.New(u.Type)
		var n int
		var err error
		func() {
			defer func() {
				if x := recover(); x != nil {
					t.Fatalf("C05 DecodeObject panicked: %v sid=%d in=%x", x, u.Sid, data)
				}
			}()
			n, err = frugal.DecodeObject(data, dest.Interface())
		}()
		if err != nil {
			return
		}
		if n > len(data) {
			t.Fatalf("C05 consumed %d > len %d sid=%d in=%x", n, len(data), u.Sid, data)
		}
		if _, perr := parseStructMsg(data[:n]); perr != nil {
			t.Fatalf("C05 success on bytes that are not a well-formed message n=%d sid=%d in=%x", n, u.Sid, data)
		}
		d2 := reflect.New(u.Type)
		if m, err2 := frugal.DecodeObject(data[:n], d2.Interface()); err2 != nil || m != n {
			t.Fatalf("C05 decoding the consumed prefix again: n=%d err=%v, first time n=%d sid=%d in=%x", m, err2, n, u.Sid, data)
		}
	})
}
