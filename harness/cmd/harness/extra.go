package main

// White-box sequences (span, bitset, descriptor map through the verif hooks), argument
// checks, legacy-control probes (C17) and allocation measurements (C18).

import (
	"encoding/binary"
	"encoding/hex"
	"fmt"
	"math/rand"
	"os"
	"os/exec"
	"reflect"
	"runtime"
	"runtime/debug"
	"strconv"
	"strings"
	"sync"

	"github.com/cloudwego/frugal"
	fdebug "github.com/cloudwego/frugal/debug"
	freflect "github.com/cloudwego/frugal/internal/reflect"
	"github.com/cloudwego/frugal/verifharness/universe"
)

func (c *ctx) resolveAll(shuffle bool) {
	idx := make([]int, len(universe.Structs))
	for i := range idx {
		idx[i] = i
	}
	if shuffle {
		c.r.Shuffle(len(idx), func(i, j int) { idx[i], idx[j] = idx[j], idx[i] })
	}
	for _, i := range idx {
		if universe.Structs[i].Group == "huge" {
			continue // 6100 fields: its field table is compared once, by the size stream's own lines
		}
		c.h.opResolve(&universe.Structs[i])
	}
}

// cacheHistory: first thing in a fresh process: a random sequence of first and repeated uses of
// valid and invalid types that reference each other; after every use the outcome and the size of
// the build cache are compared with the state machine of BuildCache.lean (the driver keeps the
// model state across `use` lines).
func (c *ctx) cacheHistory(nops int) {
	var pool, graphs []*universe.UStruct
	for i := range universe.Structs {
		u := &universe.Structs[i]
		if u.Group == "graph" || u.Group == "invalid" {
			pool = append(pool, u)
		}
		if u.Group == "graph" {
			graphs = append(graphs, u)
		}
	}
	leafs := c.accepted("leaf", "recursive")
	use := func(u *universe.UStruct) {
		g := c.cfg()
		g.maxLen = 2
		g.bigStr = false
		g.minLen = 1
		c.h.opUseVal(u, g)
	}
	// every reference graph (gentypes: blocks of 7): its members in several random orders, so that
	// every member is used before and after every other one, valid and invalid alike
	const graphSize = 7
	for lo := 0; lo+graphSize <= len(graphs); lo += graphSize {
		ms := graphs[lo : lo+graphSize]
		for round := 0; round < 4; round++ {
			for _, i := range c.r.Perm(len(ms)) {
				use(ms[i])
				if c.r.Intn(6) == 0 {
					use(pool[c.r.Intn(len(pool))])
				}
			}
		}
	}
	// user code failing inside a build (`boom` group: blocks of 3, then of 5): a failed first use, then
	// the members in random orders, failing and working uses mixed
	var booms []*universe.UStruct
	for i := range universe.Structs {
		if u := &universe.Structs[i]; u.Group == "boom" {
			booms = append(booms, u)
		}
	}
	if len(booms) >= 3 {
		c.h.opUseBoom(booms[2], c.cfg())
		use(booms[2])
		for round := 0; round < 6; round++ {
			for _, i := range c.r.Perm(len(booms)) {
				if c.r.Intn(2) == 0 {
					g := c.cfg()
					g.maxLen, g.bigStr, g.minLen = 2, false, 1
					c.h.opUseBoom(booms[i], g)
				}
				if c.r.Intn(3) > 0 {
					use(booms[i])
				}
			}
		}
		pool = append(pool, booms...)
	}
	for i := 0; i < nops; i++ {
		var u *universe.UStruct
		if c.r.Intn(8) == 0 && len(leafs) > 0 {
			u = leafs[c.r.Intn(len(leafs))]
		} else {
			u = pool[c.r.Intn(len(pool))]
		}
		use(u)
	}
}

// opUse: one use of a type with a populated value (nested pointers non-nil where the generator can
// make them so: a half-linked descriptor is dereferenced, not just looked up) and, when accepted, a
// decode of what was written.
func (h *H) opUse(u *universe.UStruct) { h.opUseVal(u, nil) }

func (h *H) opUseVal(u *universe.UStruct, g *genCfg) {
	line := fmt.Sprintf("use %d", u.Sid)
	h.mark(line)
	res := safely(func() string {
		p := reflect.New(u.Type)
		if g != nil {
			func() {
				defer func() { recover() }() // types the generator cannot populate stay zero
				g.h = h
				g.gen(p.Elem())
			}()
		}
		var n int
		sz := 4096
		func() {
			defer func() { recover() }()
			sz = frugal.EncodedSize(p.Interface()) + 16
		}()
		buf := make([]byte, sz)
		n, err := frugal.EncodeObject(buf, nil, p.Interface())
		if err != nil {
			return "err"
		}
		q := reflect.New(u.Type)
		if _, err := frugal.DecodeObject(buf[:n], q.Interface()); err != nil {
			if strings.Contains(err.Error(), "required") {
				return "ok" // a nil struct pointer written as an empty struct: see C01 (rtOK)
			}
			return "decode-failed-after-encode"
		}
		return "ok"
	})
	pf, _ := freflect.VerifCacheSizes()
	h.emit(fmt.Sprintf("%s -> %s pf=%d", line, res, pf))
	h.stats["use"]++
}

// opUseBoom: a use of the type while the marked InitDefault methods of the `boom` group panic: user
// code that fails inside a descriptor build (the build calls InitDefault to read the declared
// defaults).  EncodedSize only: encode and size call no user code once the descriptor exists, so the
// call panics exactly when the build has to resolve a marked struct.  The state machine treats it as
// a failed use: nothing of it may stay behind (D21).
func (h *H) opUseBoom(u *universe.UStruct, g *genCfg) {
	line := fmt.Sprintf("useboom %d", u.Sid)
	h.mark(line)
	p := reflect.New(u.Type)
	if g != nil {
		func() {
			defer func() { recover() }()
			g.h = h
			g.gen(p.Elem())
		}()
	}
	universe.Boom.Store(true)
	res := func() (res string) {
		defer func() {
			if r := recover(); r != nil {
				if s, ok := r.(string); ok && s == "universe: defaults not ready" {
					res = "panic:user"
				} else {
					res = panicClass(r)
				}
			}
		}()
		frugal.EncodedSize(p.Interface())
		return "ok"
	}()
	universe.Boom.Store(false)
	pf, _ := freflect.VerifCacheSizes()
	h.emit(fmt.Sprintf("%s -> %s pf=%d", line, res, pf))
	h.stats["useboom"]++
}

func (c *ctx) spanOps(nseq int) {
	for k := 0; k < nseq; k++ {
		sp := freflect.NewVerifSpan()
		init := sp.BaseMod8()
		var ops, res []string
		m := 5 + c.r.Intn(60)
		for i := 0; i < m; i++ {
			var n int
			switch c.r.Intn(8) {
			case 0:
				n = 1
			case 1:
				n = 255 + c.r.Intn(3)
			case 2:
				n = 2040 + c.r.Intn(20)
			case 3:
				n = 3000 + c.r.Intn(3000)
			default:
				n = 1 + c.r.Intn(300)
			}
			align := 1 << uint(c.r.Intn(4))
			blk, off, bm, _ := sp.Malloc(n, align)
			ops = append(ops, fmt.Sprintf("%d:%d:%d", n, align, bm))
			res = append(res, fmt.Sprintf("%d:%d", blk, off))
		}
		c.h.emit(fmt.Sprintf("span %d;%s -> %s", init, strings.Join(ops, ","), strings.Join(res, " ")))
		c.h.stats["span"]++
	}
	// routing
	for _, n := range []int{0, 1, 255, 256, 257, 2047, 2048, 2049, 100000} {
		for _, typed := range []bool{false, true} {
			t := 0
			if typed {
				t = 1
			}
			r := 0
			if freflect.VerifDecoderRoute(n, typed) {
				r = 1
			}
			c.h.emit(fmt.Sprintf("route %d:%d -> %d", n, t, r))
		}
	}
}

func (c *ctx) bitsetOps(nseq int) {
	ids := []int{0, 1, 31, 32, 33, 62, 63, 64, 65, 127, 128, 129, 255, 256, 4095, 4096, 32767, 32768, 65471, 65472, 65534, 65535}
	for k := 0; k < nseq; k++ {
		bs := &freflect.VerifBitset{}
		var ops []string
		var res strings.Builder
		m := 10 + c.r.Intn(80)
		pool := make([]int, 6)
		for i := range pool {
			if c.r.Intn(2) == 0 {
				pool[i] = ids[c.r.Intn(len(ids))]
			} else {
				pool[i] = c.r.Intn(65536)
			}
		}
		// neighbours in the same word
		pool = append(pool, pool[0]^1, pool[1]^32, (pool[2]+64)%65536)
		for i := 0; i < m; i++ {
			id := pool[c.r.Intn(len(pool))]
			switch c.r.Intn(3) {
			case 0:
				bs.Set(uint16(id))
				ops = append(ops, "s"+strconv.Itoa(id))
			case 1:
				bs.Unset(uint16(id))
				ops = append(ops, "u"+strconv.Itoa(id))
			default:
				ops = append(ops, "t"+strconv.Itoa(id))
				if bs.Test(uint16(id)) {
					res.WriteByte('1')
				} else {
					res.WriteByte('0')
				}
			}
		}
		c.h.emit(fmt.Sprintf("bitset %s -> %s", strings.Join(ops, ","), res.String()))
		c.h.stats["bitset"]++
	}
}

func (c *ctx) descMapOps(nseq int) {
	for k := 0; k < nseq; k++ {
		dm := freflect.NewVerifDescMap(6)
		var ops, res []string
		base := uintptr(c.r.Intn(1 << 20))
		keys := []uintptr{base, base + 0x10000, base + 0x20000, base + 1, base + 0x10001, uintptr(c.r.Intn(1 << 30))}
		m := 5 + c.r.Intn(40)
		for i := 0; i < m; i++ {
			key := keys[c.r.Intn(len(keys))]
			if c.r.Intn(3) == 0 {
				d := c.r.Intn(6)
				ok := dm.Set(key, d)
				ops = append(ops, fmt.Sprintf("s%d:%d", key, d))
				if ok {
					res = append(res, "1")
				} else {
					res = append(res, "0")
				}
			} else {
				ops = append(ops, fmt.Sprintf("g%d", key))
				res = append(res, strconv.Itoa(dm.Get(key)))
			}
		}
		c.h.emit(fmt.Sprintf("descmap %s -> %s", strings.Join(ops, ","), strings.Join(res, ",")))
		c.h.stats["descmap"]++
	}
}

// ---- argument checks (C13) ----

func (c *ctx) argOps() {
	type S = struct {
		A int32 `frugal:"1,default,i32"`
	}
	var nilp *S
	pp := new(*S)
	i := 5
	cases := []struct {
		kind string
		arg  interface{}
	}{
		{"nil", nil}, {"int", 5}, {"ptrint", &i}, {"ptrptr", pp}, {"slice", []S{{}}}, {"map", map[int]S{}},
		{"str", "x"}, {"nilptr", nilp}, {"struct", S{}}, {"ptr", &S{}}, {"func", func() {}}, {"chan", make(chan int)},
	}
	for round := 0; round < 2; round++ {
		for _, cs := range cases {
			back := make([]byte, 32)
			for k := range back {
				back[k] = 0xEE
			}
			s := safely(func() string { return "ok:" + strconv.Itoa(frugal.EncodedSize(cs.arg)) })
			e := safely(func() string {
				n, err := frugal.EncodeObject(back[:16], nil, cs.arg)
				if err != nil {
					return "err"
				}
				return "ok:" + strconv.Itoa(n)
			})
			if e == "err" {
				for _, b := range back {
					if b != 0xEE {
						c.h.oracle("C13", "rejected argument kind "+cs.kind+" but bytes were produced")
						break
					}
				}
			}
			d := safely(func() string {
				n, err := frugal.DecodeObject([]byte{0}, cs.arg)
				if err != nil {
					return "err"
				}
				return "ok:" + strconv.Itoa(n)
			})
			c.h.emit(fmt.Sprintf("arg %s -> %s %s %s", cs.kind, s, e, d))
			c.h.stats["arg"]++
		}
	}
	// a Go type that nests itself without end (a map needs no annotation to stop the parser): rejected
	// like any other unsupported definition, directly and nested in a valid type (D20)
	for _, cs := range []struct {
		kind string
		arg  interface{}
	}{{"rectype", &argRecHolder{}}, {"recnested", &argRecOuter{}}} {
		s := safely(func() string { return "ok:" + strconv.Itoa(frugal.EncodedSize(cs.arg)) })
		e := safely(func() string {
			if _, err := frugal.EncodeObject(make([]byte, 16), nil, cs.arg); err != nil {
				return "err"
			}
			return "ok"
		})
		d := safely(func() string {
			if _, err := frugal.DecodeObject([]byte{0}, cs.arg); err != nil {
				return "err"
			}
			return "ok"
		})
		c.h.emit(fmt.Sprintf("arg %s -> %s %s %s", cs.kind, s, e, d))
		c.h.stats["arg"]++
	}
	// the same rejected call before and after the type has been used (and cached) by valid calls
	c.h.emit("arg decstruct -> " + decStructByValue())
	safely(func() string {
		frugal.EncodedSize(argS2{})
		b := make([]byte, 16)
		frugal.EncodeObject(b, nil, &argS2{B: 1})
		frugal.DecodeObject([]byte{0}, &argS2{})
		return ""
	})
	c.h.emit("arg decstruct -> " + decStructByValue())
	c.h.stats["arg"] += 2
}

type argEmpty struct{}

type argBigList struct {
	L []argEmpty `frugal:"1,default,list<argEmpty>"`
}

// bigLenProbe: a container longer than the wire format's int32 count can say (zero-size elements: no
// memory needed). The encoder writes uint32(len) and loops uint32(len) times: no error, a list of one.
func (c *ctx) bigLenProbe() {
	v := &argBigList{L: make([]argEmpty, 1<<32+1)}
	buf := make([]byte, 64)
	res := safely(func() string {
		n, err := frugal.EncodeObject(buf, nil, v)
		if err != nil {
			return "err"
		}
		return "ok:" + hex.EncodeToString(buf[:n])
	})
	c.h.stats["biglen"]++
	if res != "err" {
		c.h.oracle("C04", "a list of 2^32+1 elements (length beyond int32) was encoded without an error: "+res)
	}
}

type argAmp struct {
	ID       int64             `frugal:"1,default,i64"`
	Name     string            `frugal:"2,default,string"`
	Tags     []string          `frugal:"3,default,list<string>"`
	Attrs    map[string]string `frugal:"4,default,map<string:string>"`
	Children []argAmp          `frugal:"5,default,list<argAmp>"`
}

// ampProbe (D22): nested list headers of a recursive type, each with a count equal to the number of
// bytes left: every level passes the plausibility check `count <= remaining/minWireSize` against the
// whole rest of the input and allocates count*sizeof(element) before decoding anything, so the
// total is (nesting depth) x sizeof(element) x len(input), where a well-formed message of that length
// can never hold more than len(input) elements altogether.
func (c *ctx) ampProbe() {
	const levels, pad = 300, 4096
	total := levels*8 + pad
	in := make([]byte, 0, total)
	for i := 0; i < levels; i++ {
		in = append(in, tLIST, 0, 5, tSTRUCT)
		in = binary.BigEndian.AppendUint32(in, uint32(total-len(in)-4))
	}
	in = append(in, make([]byte, pad)...)
	var ms0, ms1 runtime.MemStats
	runtime.GC()
	runtime.ReadMemStats(&ms0)
	res := safely(func() string {
		if _, err := frugal.DecodeObject(in, &argAmp{}); err != nil {
			return "err"
		}
		return "ok"
	})
	runtime.ReadMemStats(&ms1)
	runtime.GC()
	c.h.stats["ampprobe"]++
	d := ms1.TotalAlloc - ms0.TotalAlloc
	if res != "err" {
		c.h.oracle("C05", "ampProbe: malformed nested counts gave "+res)
	}
	// no well-formed message of len(in) bytes needs more than len(in) elements of 80 bytes
	if d > uint64(len(in))*80*8 {
		c.h.oracle("C05", fmt.Sprintf("nested counts each claiming the rest of the input: decode of %d malformed bytes (%d nested list<struct> headers, count = bytes left) allocated %d bytes = %d x the input", len(in), levels, d, d/uint64(len(in))))
	}
}

type argStale struct {
	S string `frugal:"1,default,string"`
	P *int64 `frugal:"2,optional,i64"`
	Q *bool  `frugal:"3,optional,bool"`
}

// a struct without a pointer in it, created by the decoder behind a pointer, in a list and as a map value
type argStaleIn struct {
	X int64   `frugal:"1,default,i64"`
	Y int64   `frugal:"2,default,i64"`
	Z int32   `frugal:"3,default,i32"`
	W float64 `frugal:"4,default,double"`
}

type argStale2 struct {
	P *argStaleIn           `frugal:"1,optional,argStaleIn"`
	L []argStaleIn          `frugal:"2,default,list<argStaleIn>"`
	M map[int32]*argStaleIn `frugal:"3,default,map<i32:argStaleIn>"`
	Q []*argStaleIn         `frugal:"4,default,list<argStaleIn>"`
}

// staleProbe (C07, D26): "nothing from an earlier message ever appears in a later result", the destination of
// a *failed* decode included.  Many decodes of a message full of a recognisable byte, dropped and collected;
// then a message truncated right after the header of an optional scalar pointer field: the field must not
// point at memory that still holds the earlier messages' bytes (the pointee used to be allocated, from
// uncleared allocator blocks, before the length check).
func (c *ctx) staleProbe() {
	valid := &argStale{S: strings.Repeat("\xa7", 250)}
	buf := make([]byte, frugal.EncodedSize(valid))
	if _, err := frugal.EncodeObject(buf, nil, valid); err != nil {
		c.h.oracle("C07", "staleProbe: "+err.Error())
		return
	}
	rounds := 6
	if c.tier == "thorough" {
		rounds = 40
	}
	for round := 0; round < rounds; round++ {
		for i := 0; i < 4000; i++ {
			var m argStale
			frugal.DecodeObject(buf, &m)
		}
		runtime.GC()
		runtime.GC()
		for i := 0; i < 600; i++ {
			for _, in := range [][]byte{{10, 0, 2}, {10, 0, 2, 1, 2, 3}, {2, 0, 3}} {
				var dst argStale
				_, err := frugal.DecodeObject(in, &dst)
				c.h.stats["staleprobe"]++
				if err == nil {
					c.h.oracle("C07", fmt.Sprintf("staleProbe: truncated message %x accepted", in))
					return
				}
				if in[0] == 10 && len(in) == 3 {
					// a sparse message from an older writer: every struct the decoder creates carries field 1 only;
					// the fields it does not carry read as zero whatever memory the struct was carved from (R1 took
					// pointer-free structs from the uncleared allocator blocks)
					sparse := []byte{12, 0, 1, 10, 0, 1, 0, 0, 0, 0, 0, 0, 0, 7, 0,
						15, 0, 2, 12, 0, 0, 0, 2, 10, 0, 1, 0, 0, 0, 0, 0, 0, 0, 1, 0, 10, 0, 1, 0, 0, 0, 0, 0, 0, 0, 2, 0,
						13, 0, 3, 8, 12, 0, 0, 0, 1, 0, 0, 0, 5, 10, 0, 1, 0, 0, 0, 0, 0, 0, 0, 3, 0,
						15, 0, 4, 12, 0, 0, 0, 1, 10, 0, 1, 0, 0, 0, 0, 0, 0, 0, 4, 0, 0}
					var d2 argStale2
					if _, err := frugal.DecodeObject(sparse, &d2); err != nil {
						c.h.oracle("C07", "staleProbe: sparse message rejected: "+err.Error())
						return
					}
					ins := []*argStaleIn{d2.P, d2.M[5]}
					for k := range d2.L {
						ins = append(ins, &d2.L[k])
					}
					ins = append(ins, d2.Q...)
					for _, x := range ins {
						if x == nil || x.Y != 0 || x.Z != 0 || x.W != 0 {
							c.h.oracle("C07", fmt.Sprintf("a struct the decoder created shows, in fields the message does not carry, what the memory held before: %+v (sparse message %x)", x, sparse))
							return
						}
					}
				}
				if dst.P != nil && uint64(*dst.P) == 0xa7a7a7a7a7a7a7a7 {
					c.h.oracle("C07", fmt.Sprintf("after the failed decode of %x the optional field P points at memory never written by it, holding bytes of an earlier message: %#x", in, uint64(*dst.P)))
					return
				}
			}
		}
	}
}

// hugeHolder (C11, S3): a struct of more than 64 KiB whose unknown-field holder lies beyond byte 65535: a sparse
// message with two unknown fields is decoded into it (compared with the model), re-encoded and sized
func (c *ctx) hugeHolder() {
	for _, u := range c.accepted("huge") {
		if !u.Holder {
			continue
		}
		last := uint16(u.Fields[len(u.Fields)-1].ID)
		tv := &TV{T: tSTRUCT, Fields: []TField{
			{1, &TV{T: tI64, N: 7}}, {60001, &TV{T: tI32, N: 5}}, {last, &TV{T: tI64, N: 9}},
			{60002, &TV{T: tSTRING, S: []byte("xy")}}}}
		d := fresh(u)
		ok, _, _ := c.h.opDec(u, tv.ser(nil), d, false)
		if ok {
			c.h.opEnc(u, d, encOpt{bufLen: -1})
			c.h.opSize(u, d, false)
		}
	}
}

type argErrStorm struct {
	L []int32          `frugal:"1,default,list<i32>"`
	S []string         `frugal:"2,default,set<string>"`
	M map[int32]string `frugal:"3,default,map<i32:string>"`
}

// errorPathStorm (C08): the decoder's error paths under concurrency.  Messages whose list / set element code
// or map key / value code is each byte value that is not the declared one, decoded by several goroutines
// released together, each in its own order: every one must be rejected, and under the race detector nothing
// may be written to shared state while another goroutine reads it (P1 cached the name of an unknown code in
// a package-level table from inside DecodeObject).
func (c *ctx) errorPathStorm(workers int) {
	var msgs [][]byte
	for code := 0; code < 256; code++ {
		b := byte(code)
		if b != tI32 {
			msgs = append(msgs, []byte{tLIST, 0, 1, b, 0, 0, 0, 1, 0, 0, 0, 7, 0})
			msgs = append(msgs, []byte{tMAP, 0, 3, b, tSTRING, 0, 0, 0, 1, 0, 0, 0, 7, 0, 0, 0, 1, 'x', 0})
		}
		if b != tSTRING {
			msgs = append(msgs, []byte{tSET, 0, 2, b, 0, 0, 0, 1, 0, 0, 0, 1, 'x', 0})
			msgs = append(msgs, []byte{tMAP, 0, 3, tI32, b, 0, 0, 0, 1, 0, 0, 0, 7, 0, 0, 0, 1, 'x', 0})
		}
	}
	var wg sync.WaitGroup
	start := make(chan struct{})
	bad := make([]string, workers)
	for w := 0; w < workers; w++ {
		w := w
		order := rand.New(rand.NewSource(c.r.Int63())).Perm(len(msgs))
		wg.Add(1)
		go func() {
			defer wg.Done()
			<-start
			for _, i := range order {
				res := safely(func() string {
					if _, err := frugal.DecodeObject(msgs[i], &argErrStorm{}); err != nil {
						return "err"
					}
					return "ok"
				})
				if res != "err" && bad[w] == "" {
					bad[w] = fmt.Sprintf("%s in=%x", res, msgs[i])
				}
			}
		}()
	}
	close(start)
	wg.Wait()
	c.h.stats["errstorm"] += workers * len(msgs)
	for _, b := range bad {
		if b != "" {
			c.h.oracle("C08", "errorPathStorm: a container with a mismatching element / key / value code was not rejected: "+b)
		}
	}
}

type argRecMap map[string]argRecMap

type argRecHolder struct {
	A int32     `frugal:"1,default,i32"`
	X argRecMap `frugal:"2,default"`
}

type argRecOuter struct {
	In *argRecHolder `frugal:"1,optional,argRecHolder"`
	B  int32         `frugal:"2,default,i32"`
}

type argS2 struct {
	B int64 `frugal:"1,default,i64"`
}

// decStructByValue: DecodeObject given a struct by value (not a pointer): rejected with an error
func decStructByValue() string {
	return safely(func() string {
		n, err := frugal.DecodeObject([]byte{0}, argS2{})
		if err != nil {
			return "err"
		}
		return "ok:" + strconv.Itoa(n)
	})
}

// ---- C17 ----

func (c *ctx) legacy(us []*universe.UStruct) {
	// in-process: sprinkle legacy calls between ordinary operations; every ordinary operation is
	// still checked against the configuration-free model
	g := c.cfg()
	g.maxLen = 4
	calls := func() {
		switch c.r.Intn(7) {
		case 0:
			x := &universe.Structs[c.r.Intn(len(universe.Structs))]
			res := safely(func() string {
				if err := frugal.Pretouch(x.Type, frugal.WithMaxInlineDepth(c.r.Intn(10)), frugal.WithMaxInlineILSize(c.r.Intn(1000)), frugal.WithMaxPretouchDepth(c.r.Intn(5))); err != nil {
					return "err"
				}
				return "ok"
			})
			if res != "ok" {
				c.h.oracle("C17", fmt.Sprintf("Pretouch(%s) = %s", x.Name, res))
			}
		case 1:
			for _, a := range []interface{}{nil, 5, reflect.TypeOf(5), "x", reflect.TypeOf((**int)(nil))} {
				res := safely(func() string {
					if err := frugal.Pretouch(reflect.TypeOf(a)); err != nil {
						return "err"
					}
					return "ok"
				})
				if res != "ok" {
					c.h.oracle("C17", fmt.Sprintf("Pretouch(%T) = %s", a, res))
				}
			}
		case 2:
			frugal.NoJIT(c.r.Intn(2) == 0)
		case 3:
			v := c.r.Intn(1 << 20)
			if got := frugal.SetMaxInlineDepth(v); got != v {
				c.h.oracle("C17", fmt.Sprintf("SetMaxInlineDepth(%d) = %d", v, got))
			}
		case 4:
			v := c.r.Intn(1<<20) - 5
			if got := frugal.SetMaxInlineILSize(v); got != v {
				c.h.oracle("C17", fmt.Sprintf("SetMaxInlineILSize(%d) = %d", v, got))
			}
		case 5:
			safely(func() string { _ = fdebug.GetStats(); return "" })
		}
	}
	for i := 0; i < 100*c.n; i++ {
		calls()
		u := us[c.r.Intn(len(us))]
		p := c.newValue(u, g)
		b := c.h.opEnc(u, p, encOpt{bufLen: -1})
		calls()
		if b != nil {
			c.h.opDec(u, b, fresh(u), false)
		}
		if c.r.Intn(10) == 0 {
			x := &universe.Structs[c.r.Intn(len(universe.Structs))]
			// Pretouch on a rejected type must not change how it is treated afterwards
			frugal.Pretouch(x.Type)
			frugal.Pretouch(reflect.PtrTo(x.Type))
			frugal.Pretouch(reflect.PtrTo(reflect.PtrTo(x.Type)))
			c.h.opResolve(x)
		}
	}
	// Pretouch every member of the reference graphs (some members are unsupported definitions) and the
	// invalid group, in a random order, before any of them is used: how each is then treated must be
	// what it is in a process that never called Pretouch (a warm-up that builds descriptors without
	// the failed-build rollback would leave half-built ones behind)
	var gs []*universe.UStruct
	for i := range universe.Structs {
		if g := universe.Structs[i].Group; g == "graph" || g == "invalid" {
			gs = append(gs, &universe.Structs[i])
		}
	}
	c.r.Shuffle(len(gs), func(i, j int) { gs[i], gs[j] = gs[j], gs[i] })
	for _, x := range gs {
		safely(func() string {
			frugal.Pretouch(x.Type)
			frugal.Pretouch(reflect.PtrTo(x.Type))
			frugal.Pretouch(reflect.New(x.Type).Interface())
			return ""
		})
	}
	for _, x := range gs {
		c.h.opResolve(x)
	}
	// ** pointer argument after Pretouch of the same type
	type S = struct {
		A int32 `frugal:"1,default,i32"`
	}
	pp := new(*S)
	*pp = &S{A: 1}
	frugal.Pretouch(reflect.TypeOf(pp))
	frugal.Pretouch(pp)
	s := safely(func() string { return "ok:" + strconv.Itoa(frugal.EncodedSize(pp)) })
	e := safely(func() string {
		_, err := frugal.EncodeObject(make([]byte, 16), nil, pp)
		if err != nil {
			return "err"
		}
		return "ok"
	})
	c.h.emit(fmt.Sprintf("arg ptrptr -> %s %s err", s, e))
	// child processes under environment settings
	if os.Getenv("VERIF_C17_CHILD") == "" {
		envs := [][2]string{{"", ""}, {"2", "257"}, {"3", "50000"}, {"0x10", "0x1000"}, {"017", "0o1000"}, {"0b11", "1_000"},
			{"9223372036854775807", "4611686018427387904"}, {"100", "1000000000000"}}
		exe, _ := os.Executable()
		for _, ev := range envs {
			cmd := exec.Command(exe, "-mode", "C17child", "-seed", strconv.FormatInt(c.r.Int63n(1<<30), 10))
			cmd.Env = append(os.Environ(), "VERIF_C17_CHILD=1")
			if ev[0] != "" {
				cmd.Env = append(cmd.Env, "FRUGAL_MAX_INLINE_DEPTH="+ev[0], "FRUGAL_MAX_INLINE_IL_SIZE="+ev[1])
			}
			out, err := cmd.Output()
			if err != nil {
				c.h.oracle("C17", fmt.Sprintf("process with FRUGAL_MAX_INLINE_DEPTH=%q FRUGAL_MAX_INLINE_IL_SIZE=%q failed: %v", ev[0], ev[1], err))
				continue
			}
			c.h.out.Write(out)
			c.h.stats["c17_children"]++
		}
	}
}

func (c *ctx) legacyChild(us []*universe.UStruct) {
	g := c.cfg()
	g.maxLen = 4
	for i := 0; i < 60; i++ {
		u := us[c.r.Intn(len(us))]
		p := c.newValue(u, g)
		c.h.opSize(u, p, false)
		b := c.h.opEnc(u, p, encOpt{bufLen: -1})
		if b != nil {
			c.h.opDec(u, b, fresh(u), false)
		}
	}
}

// ---- C18 ----

func mallocsDuring(f func()) uint64 {
	var a, b runtime.MemStats
	runtime.ReadMemStats(&a)
	f()
	runtime.ReadMemStats(&b)
	return b.Mallocs - a.Mallocs
}

func (c *ctx) allocFree(us []*universe.UStruct, n int) {
	defer debug.SetGCPercent(debug.SetGCPercent(-1))
	prev := runtime.GOMAXPROCS(1)
	defer runtime.GOMAXPROCS(prev)
	g := c.cfg()
	g.maxLen = 20
	for _, u := range us {
		for i := 0; i < n; i++ {
			p := c.newValue(u, g)
			arg := p.Interface()
			size := -1
			if safely(func() string { size = frugal.EncodedSize(arg); return "ok" }) != "ok" {
				continue
			}
			buf := make([]byte, size+32)
			frugal.EncodeObject(buf, nil, arg) // first use
			const reps = 20
			var ms, me uint64
			for try := 0; try < 3; try++ {
				ms = mallocsDuring(func() {
					for k := 0; k < reps; k++ {
						frugal.EncodedSize(arg)
					}
				})
				me = mallocsDuring(func() {
					for k := 0; k < reps; k++ {
						frugal.EncodeObject(buf, nil, arg)
					}
				})
				if ms == 0 && me == 0 {
					break
				}
			}
			if i == 0 {
				// "after first use", however long ago: the pooled scratch values are dropped after two
				// garbage collections; a pointer call must not need them
				idle := uint64(1)
				for try := 0; try < 3 && idle > 0; try++ {
					runtime.GC()
					runtime.GC()
					runtime.GC()
					idle = mallocsDuring(func() {
						frugal.EncodedSize(arg)
						frugal.EncodeObject(buf, nil, arg)
					})
				}
				c.h.stats["alloc_idle_measured"]++
				if idle > 0 {
					c.h.oracle("C18", fmt.Sprintf("heap allocations on the first pointer calls after the type was idle for three garbage collections: %d (3 attempts, all > 0) sid=%d val=%s", idle, u.Sid, clip(showValue(p.Elem()))))
				}
			}
			c.h.stats["alloc_measured"]++
			c.h.emit(fmt.Sprintf("alloc %d -> %d %d", u.Sid, ms/reps, me/reps))
			if ms >= reps || me >= reps {
				c.h.oracle("C18", fmt.Sprintf("heap allocations in steady state: EncodedSize=%d/%d EncodeObject=%d/%d calls sid=%d val=%s", ms, reps, me, reps, u.Sid, clip(showValue(p.Elem()))))
			}
		}
	}
}
