package main

// Operation executors: each runs the real implementation in-process (recover around every
// call), prints one transcript line `op ... -> <go result>` for the model driver, and runs
// the Go-side oracles that need no model (size = n, guard bytes, value/input snapshots,
// memory-region walk).  Oracle failures are printed as `oracle <Cnn> FAIL ...` lines.

import (
	"sync"
	"bufio"
	"bytes"
	"encoding/hex"
	"errors"
	"fmt"
	"os"
	"reflect"
	"regexp"
	"runtime"
	"sort"
	"strconv"
	"strings"
	"unsafe"

	"github.com/cloudwego/frugal"
	"github.com/cloudwego/frugal/internal/defs"
	"github.com/cloudwego/frugal/verifharness/universe"
	"github.com/cloudwego/gopkg/protocol/thrift"
)

type H struct {
	out   *bufio.Writer
	cur   *os.File // the operation being executed (for crash attribution)
	nops  int
	stats map[string]int
	buf   *bytes.Buffer // only for per-goroutine transcripts
	spares [][]byte     // spare capacity (filled with 0xEE) behind holder slices of the current value
}

// checkSpares: memory reachable from the value but outside it (spare capacity of its slices) must
// not be written by size / encode
func (h *H) checkSpares(what string, sid int) {
	for _, sp := range h.spares {
		for _, b := range sp {
			if b != 0xEE {
				h.oracle("C16", fmt.Sprintf("%s wrote into the spare capacity of a slice of its argument sid=%d", what, sid))
				for i := range sp {
					sp[i] = 0xEE
				}
				return
			}
		}
	}
}

func (h *H) emit(line string) {
	h.out.WriteString(line)
	h.out.WriteByte('\n')
	h.nops++
}

func (h *H) oracle(prop, msg string) {
	h.out.WriteString("oracle " + prop + " FAIL " + msg + "\n")
	h.stats["oracle_fail"]++
}

func (h *H) mark(s string) {
	if h.cur != nil {
		if len(s) > 1<<20 {
			s = s[:1<<20] + "..." // a replay needs the whole line; only absurdly long ones are cut
		}
		h.cur.Truncate(0)
		h.cur.WriteAt([]byte(s), 0)
	}
}

func hexOrDash(b []byte) string {
	if len(b) == 0 {
		return "-"
	}
	return hex.EncodeToString(b)
}

// panicClass maps a recovered value to the small enum of the protocol.
func panicClass(r interface{}) string {
	if e, ok := r.(runtime.Error); ok {
		s := e.Error()
		switch {
		case strings.Contains(s, "index out of range"), strings.Contains(s, "slice bounds out of range"):
			return "panic:bounds"
		case strings.Contains(s, "nil pointer dereference"), strings.Contains(s, "invalid memory address"):
			return "panic:nilderef"
		}
		return "panic:other"
	}
	if _, ok := r.(string); ok {
		return "panic:ordinary"
	}
	if _, ok := r.(error); ok {
		return "panic:ordinary"
	}
	return "panic:other"
}

func safely(f func() string) (res string) {
	defer func() {
		if r := recover(); r != nil {
			res = panicClass(r)
		}
	}()
	return f()
}

var reqRe = regexp.MustCompile(`required field "([^"]*)" is not set`)

func errClass(err error) string {
	var pe interface{ TypeId() int32 }
	if errors.As(err, &pe) {
		switch pe.TypeId() {
		case thrift.DEPTH_LIMIT:
			return "depth"
		case thrift.INVALID_DATA:
			if m := reqRe.FindStringSubmatch(err.Error()); m != nil {
				return "required:" + m[1]
			}
		}
	}
	return "err"
}

func argOf(p reflect.Value, byval bool) interface{} {
	if byval {
		return p.Elem().Interface()
	}
	return p.Interface()
}

// ---- size ----

func (h *H) opSize(u *universe.UStruct, p reflect.Value, byval bool) int {
	vs := showValue(p.Elem())
	line := fmt.Sprintf("size %d %s", u.Sid, vs)
	h.mark(line)
	n := -1
	res := safely(func() string {
		n = frugal.EncodedSize(argOf(p, byval))
		return strconv.Itoa(n)
	})
	h.emit(line + " -> " + res)
	if after := showValue(p.Elem()); after != vs {
		h.oracle("C16", fmt.Sprintf("EncodedSize modified its argument sid=%d before=%s after=%s", u.Sid, vs, after))
	}
	h.stats["size"]++
	h.checkSpares("EncodedSize", u.Sid)
	return n
}

// ---- enc ----

type encOpt struct {
	byval   bool
	bufLen  int // -1: exactly size
	extra   int // spare capacity behind len
}

func (h *H) opEnc(u *universe.UStruct, p reflect.Value, o encOpt) []byte {
	vs := showValue(p.Elem())
	line := fmt.Sprintf("enc %d %s", u.Sid, vs)
	h.mark(line)
	size := -1
	sres := safely(func() string { size = frugal.EncodedSize(argOf(p, o.byval)); return "ok" })
	if sres != "ok" {
		h.emit(line + " -> " + sres)
		return nil
	}
	bl := o.bufLen
	if bl < 0 {
		bl = size
	}
	back := make([]byte, bl+o.extra)
	for i := range back {
		back[i] = 0xEE
	}
	buf := back[:bl]
	var n int
	var err error
	res := safely(func() string {
		n, err = frugal.EncodeObject(buf, nil, argOf(p, o.byval))
		if err != nil {
			return "err"
		}
		return "ok"
	})
	h.stats["enc"]++
	h.checkSpares("EncodeObject", u.Sid)
	if after := showValue(p.Elem()); after != vs {
		h.oracle("C16", fmt.Sprintf("EncodeObject modified its argument sid=%d before=%s after=%s", u.Sid, vs, after))
	}
	// guard bytes behind len(buf) must be untouched in every case
	for i := bl; i < len(back); i++ {
		if back[i] != 0xEE {
			h.oracle("C04", fmt.Sprintf("EncodeObject wrote past len(buf): sid=%d len=%d cap=%d size=%d at=%d val=%s", u.Sid, bl, len(back), size, i, vs))
			h.oracle("C16", fmt.Sprintf("write outside buf[:n]: sid=%d len=%d size=%d at=%d", u.Sid, bl, size, i))
			break
		}
	}
	switch res {
	case "ok":
		if bl < size {
			h.oracle("C04", fmt.Sprintf("EncodeObject succeeded with a short buffer sid=%d len=%d size=%d n=%d val=%s", u.Sid, bl, size, n, vs))
			return nil
		}
		if n != size {
			h.oracle("C04", fmt.Sprintf("EncodedSize=%d but EncodeObject wrote n=%d sid=%d val=%s", size, n, u.Sid, vs))
		}
		if n <= bl {
			for i := n; i < bl; i++ {
				if back[i] != 0xEE {
					h.oracle("C16", fmt.Sprintf("bytes beyond n modified sid=%d n=%d at=%d", u.Sid, n, i))
					break
				}
			}
			out := append([]byte{}, buf[:n]...)
			h.emit(line + " -> " + hexOrDash(out))
			return out
		}
		h.emit(line + " -> n=" + strconv.Itoa(n))
		return nil
	case "err":
		if bl >= size {
			h.oracle("C04", fmt.Sprintf("EncodeObject failed with a sufficient buffer sid=%d len=%d size=%d err=%v val=%s", u.Sid, bl, size, err, vs))
			h.emit(line + " -> err")
		}
		// short buffer + error is the contract: nothing for the model to compare
		if n != 0 {
			h.oracle("C04", fmt.Sprintf("short buffer: returned n=%d with an error sid=%d", n, u.Sid))
		}
		return nil
	default:
		h.emit(line + " -> " + res)
		return nil
	}
}

// ---- dec ----

var viewRe = regexp.MustCompile(`[vw][0-9]+:[0-9a-f]*`)

type kept struct {
	u    *universe.UStruct
	p    reflect.Value
	buf  []byte
	shown string
	failed bool // the decode returned an error: `shown` is what it left in the destination
}

func (h *H) opDec(u *universe.UStruct, input []byte, dest reflect.Value, walk bool) (ok bool, n int, keep *kept) {
	before := showValue(dest.Elem())
	var pre map[[2]uintptr]bool
	if walk {
		pre = map[[2]uintptr]bool{}
		memWalk(dest.Elem(), nil, nil, pre) // pieces that exist before the decode (defaults) are not the decoder's
	}
	buf := append(make([]byte, 0, len(input)+3), input...) // private copy, spare capacity on purpose
	orig := append([]byte{}, input...)
	// a shallow copy of the destination shares every pointee, backing array and map with it: the
	// decoder may write the destination struct itself and memory it allocates, nothing else
	shadow := reflect.New(u.Type).Elem()
	shadow.Set(dest.Elem())
	line := fmt.Sprintf("dec %d %s %s", u.Sid, hexOrDash(input), before)
	h.mark(line)
	var err error
	res := safely(func() string {
		n, err = frugal.DecodeObject(buf, dest.Interface())
		if err != nil {
			return errClass(err)
		}
		return "ok"
	})
	h.stats["dec"]++
	h.stats["dec_"+strings.SplitN(res, ":", 2)[0]]++
	if string(buf) != string(orig) {
		h.oracle("C16", fmt.Sprintf("DecodeObject modified the input buffer sid=%d in=%s", u.Sid, hexOrDash(orig)))
	}
	if now := showValue(shadow); now != before {
		h.oracle("C06", fmt.Sprintf("DecodeObject wrote through memory reachable from the prior destination sid=%d in=%s dest=%s shallow copy of the destination afterwards=%s",
			u.Sid, hexOrDash(orig), clip(before), clip(now)))
	}
	if res != "ok" {
		h.emit(line + " -> " + res)
		if strings.HasPrefix(res, "panic") {
			h.oracle("C05", fmt.Sprintf("DecodeObject panicked (%s) sid=%d in=%s", res, u.Sid, hexOrDash(orig)))
			return false, n, nil
		}
		// what a failed decode left in the destination is still the caller's: later decodes must not
		// change it either (memory handed out by the failed call must not be handed out again)
		return false, n, &kept{u: u, p: dest, buf: buf, shown: showDecoded(dest.Elem(), buf), failed: true}
	}
	shown := showDecoded(dest.Elem(), buf)
	h.emit(line + " -> ok " + strconv.Itoa(n) + " " + shown)
	if walk {
		if msg := memWalk(dest.Elem(), buf, pre, nil); msg != "" {
			h.oracle("C06", fmt.Sprintf("%s sid=%d in=%s", msg, u.Sid, hexOrDash(orig)))
		}
	}
	return true, n, &kept{u: u, p: dest, buf: buf, shown: shown}
}

// decRaw: one decode into a fresh destination, nothing rendered or recorded
func decRaw(u *universe.UStruct, input []byte) (dest reflect.Value, buf []byte, res string, n int) {
	dest = reflect.New(u.Type)
	buf = append(make([]byte, 0, len(input)+3), input...)
	var err error
	res = safely(func() string {
		n, err = frugal.DecodeObject(buf, dest.Interface())
		if err != nil {
			return errClass(err)
		}
		return "ok"
	})
	return
}

// showRaw renders a decRaw result as opDec renders its own
func showRaw(dest reflect.Value, buf []byte, res string, n int) string {
	if res != "ok" {
		return res
	}
	return "ok " + strconv.Itoa(n) + " " + showDecoded(dest.Elem(), buf)
}

func decLine(u *universe.UStruct, input []byte) string {
	return fmt.Sprintf("dec %d %s %s", u.Sid, hexOrDash(input), showValue(reflect.New(u.Type).Elem()))
}

// stability: after more decodes / GCs / buffer overwrites the decoded values must not change
func (h *H) checkKept(ks []*kept) {
	runtime.GC()
	runtime.GC()
	for _, k := range ks {
		now := showDecoded(k.p.Elem(), k.buf)
		if now != k.shown {
			if k.failed {
				h.oracle("C07", fmt.Sprintf("the destination of a failed DecodeObject changed after later decodes/GC (memory of the failed call handed out again) sid=%d was=%s now=%s", k.u.Sid, clip(k.shown), clip(now)))
			} else {
				h.oracle("C06", fmt.Sprintf("decoded value changed after later decodes/GC sid=%d was=%s now=%s", k.u.Sid, clip(k.shown), clip(now)))
			}
		}
	}
	for _, k := range ks {
		masked := viewRe.ReplaceAllString(k.shown, "VIEW")
		for i := range k.buf {
			k.buf[i] ^= 0xFF
		}
		now := viewRe.ReplaceAllString(showDecoded(k.p.Elem(), k.buf), "VIEW")
		if now != masked {
			h.oracle("C06", fmt.Sprintf("decoded value changed when the input buffer was overwritten sid=%d was=%s now=%s", k.u.Sid, clip(masked), clip(now)))
		}
	}
}

func clip(s string) string {
	if len(s) > 600 {
		return s[:600] + "..."
	}
	return s
}

// ---- memory walk (C06) ----

type region struct {
	lo, hi uintptr
	align  uintptr
	what   string
}

func memWalk(v reflect.Value, buf []byte, ignore map[[2]uintptr]bool, collect map[[2]uintptr]bool) string {
	var rs []region
	var bad string
	var bufLo, bufHi uintptr
	if len(buf) > 0 {
		bufLo = uintptr(unsafe.Pointer(&buf[0]))
		bufHi = bufLo + uintptr(cap(buf))
	}
	seen := map[uintptr]bool{}
	var walk func(v reflect.Value)
	walk = func(v reflect.Value) {
		t := v.Type()
		switch t.Kind() {
		case reflect.String:
			s := v.String()
			if len(s) > 0 {
				p := uintptr(unsafe.Pointer(unsafe.StringData(s)))
				rs = append(rs, region{p, p + uintptr(len(s)), 1, "string"})
			}
		case reflect.Ptr:
			if v.IsNil() {
				return
			}
			p := v.Pointer()
			if seen[p] {
				return
			}
			seen[p] = true
			rs = append(rs, region{p, p + t.Elem().Size(), uintptr(t.Elem().Align()), "pointer to " + t.Elem().String()})
			walk(v.Elem())
		case reflect.Slice:
			if v.Len() > v.Cap() {
				bad = fmt.Sprintf("malformed slice header of type %s: len=%d > cap=%d", t.String(), v.Len(), v.Cap())
				return
			}
			if v.IsNil() || v.Cap() == 0 {
				return
			}
			p := v.Pointer()
			es := t.Elem().Size()
			if t.Elem().Kind() == reflect.Uint8 && p >= bufLo && p < bufHi {
				if v.Cap() != v.Len() {
					bad = fmt.Sprintf("view of the input has spare capacity len=%d cap=%d", v.Len(), v.Cap())
				}
			}
			rs = append(rs, region{p, p + uintptr(v.Cap())*es, uintptr(t.Elem().Align()), "slice of " + t.Elem().String()})
			if t.Elem().Kind() != reflect.Uint8 {
				for i := 0; i < v.Len(); i++ {
					walk(v.Index(i))
				}
			}
		case reflect.Map:
			it := v.MapRange()
			for it.Next() {
				walk(it.Key())
				walk(it.Value())
			}
		case reflect.Struct:
			u := byType[t]
			if u == nil {
				return
			}
			for _, f := range u.Fields {
				walk(v.Field(f.Index))
			}
			if u.Holder && v.CanAddr() {
				hb := getUnexportedBytes(v.FieldByName("_unknownFields"))
				if cap(hb) > 0 {
					p := uintptr(unsafe.Pointer(unsafe.SliceData(hb)))
					rs = append(rs, region{p, p + uintptr(cap(hb)), 1, "unknown-fields holder"})
				}
			}
		}
	}
	walk(v)
	if collect != nil {
		for _, r := range rs {
			collect[[2]uintptr{r.lo, r.hi}] = true
		}
		return ""
	}
	if bad != "" {
		return bad
	}
	if ignore != nil {
		var keep []region
		for _, r := range rs {
			if !ignore[[2]uintptr{r.lo, r.hi}] {
				keep = append(keep, r)
			}
		}
		rs = keep
	}
	for _, r := range rs {
		if r.align > 1 && r.lo%r.align != 0 {
			return fmt.Sprintf("misaligned %s at %#x (align %d)", r.what, r.lo, r.align)
		}
	}
	// views of the input are judged by the model (provenance in the printed value); here:
	// pieces outside the input must be pairwise disjoint
	var own []region
	for _, r := range rs {
		if r.lo >= bufLo && r.lo < bufHi && r.what != "" && bufHi > bufLo {
			continue
		}
		own = append(own, r)
	}
	// declared default strings assigned by InitDefault are static data shared by every instance: not
	// memory the decoder created for a transmitted value (everything else, map keys included, must be
	// pairwise disjoint — two strings with the same data pointer too)
	defaultsOnce.Do(collectDefaultStrings)
	{
		var keep []region
		for _, r := range own {
			if r.what == "string" && defaultStrings[[2]uintptr{r.lo, r.hi}] {
				continue
			}
			keep = append(keep, r)
		}
		own = keep
	}
	sort.Slice(own, func(i, j int) bool { return own[i].lo < own[j].lo })
	for i := 1; i < len(own); i++ {
		if own[i].lo < own[i-1].hi {
			return fmt.Sprintf("overlap: %s [%#x,%#x) and %s [%#x,%#x)", own[i-1].what, own[i-1].lo, own[i-1].hi, own[i].what, own[i].lo, own[i].hi)
		}
	}
	return ""
}

var (
	defaultsOnce   sync.Once
	defaultStrings = map[[2]uintptr]bool{}
)

// collectDefaultStrings: the string regions a default-initialised instance of every universe struct holds
func collectDefaultStrings() {
	for i := range universe.Structs {
		u := &universe.Structs[i]
		p := reflect.New(u.Type)
		d, ok := p.Interface().(interface{ InitDefault() })
		if !ok {
			continue
		}
		safely(func() string { d.InitDefault(); return "" })
		var walk func(v reflect.Value, depth int)
		walk = func(v reflect.Value, depth int) {
			if depth > 6 {
				return
			}
			switch v.Kind() {
			case reflect.String:
				if s := v.String(); len(s) > 0 {
					q := uintptr(unsafe.Pointer(unsafe.StringData(s)))
					defaultStrings[[2]uintptr{q, q + uintptr(len(s))}] = true
				}
			case reflect.Ptr:
				if !v.IsNil() {
					walk(v.Elem(), depth+1)
				}
			case reflect.Struct:
				for j := 0; j < v.NumField(); j++ {
					walk(v.Field(j), depth+1)
				}
			case reflect.Slice:
				if v.Type().Elem().Kind() != reflect.Uint8 {
					for j := 0; j < v.Len(); j++ {
						walk(v.Index(j), depth+1)
					}
				}
			}
		}
		walk(p.Elem(), 0)
	}
}

// ---- resolve ----

func (h *H) opResolve(u *universe.UStruct) {
	line := fmt.Sprintf("resolve %d", u.Sid)
	h.mark(line)
	own := safely(func() string {
		ff, err := defs.DoResolveFields(u.Type)
		if err != nil {
			return "0"
		}
		var parts []string
		for _, f := range ff {
			nc := "0"
			if f.Opts&defs.NoCopy != 0 {
				nc = "1"
			}
			parts = append(parts, fmt.Sprintf("%d:%s:%s:%s", f.ID, f.Spec.String(), f.Type.String(), nc))
		}
		return "1 " + strings.Join(parts, ";")
	})
	s, e, d := h.probe(u)
	acc := "acc=0"
	if s == "ok" && e == "ok" && (d == "ok" || strings.HasPrefix(d, "required:")) {
		acc = "acc=1"
	} else if !(s == "panic:ordinary" && e == "err" && d == "err") {
		h.oracle("C13", fmt.Sprintf("inconsistent rejection sid=%d (%s) size=%s enc=%s dec=%s", u.Sid, u.Name, s, e, d))
	}
	h.emit(line + " -> " + acc + " own=" + own)
	h.stats["resolve"]++
}

// probe calls the three entry points on a zero value
func (h *H) probe(u *universe.UStruct) (s, e, d string) {
	z := reflect.New(u.Type)
	sz := 32
	s = safely(func() string { sz = frugal.EncodedSize(z.Interface()); return "ok" })
	back := make([]byte, 2*sz+64)
	for i := range back {
		back[i] = 0xEE
	}
	e = safely(func() string {
		n, err := frugal.EncodeObject(back[:sz+32], nil, z.Interface())
		if err != nil {
			if n != 0 {
				return "err-with-n"
			}
			return "err"
		}
		return "ok"
	})
	if e == "err" {
		for _, b := range back {
			if b != 0xEE {
				h.oracle("C13", fmt.Sprintf("rejected type sid=%d but bytes were produced", u.Sid))
				break
			}
		}
	}
	before := showValue(z.Elem())
	d = safely(func() string {
		_, err := frugal.DecodeObject([]byte{0}, z.Interface())
		if err != nil {
			return errClass(err)
		}
		return "ok"
	})
	if d == "err" && u.Accept == false {
		if after := showValue(z.Elem()); after != before {
			h.oracle("C13", fmt.Sprintf("rejected type sid=%d but the destination was modified", u.Sid))
		}
	}
	return
}
