package main

// A small schema-less Thrift Binary value tree with serialiser, parser, random generator and
// structural mutators.  Used to synthesise messages (field order, duplicates, unknown fields,
// corruptions, deep nesting); it is independent of frugal.

import (
	"encoding/binary"
	"errors"
	"math/rand"
)

const (
	tSTOP   = 0
	tBOOL   = 2
	tBYTE   = 3
	tDOUBLE = 4
	tI16    = 6
	tI32    = 8
	tI64    = 10
	tSTRING = 11
	tSTRUCT = 12
	tMAP    = 13
	tSET    = 14
	tLIST   = 15
)

type TField struct {
	ID uint16
	V  *TV
}

type TV struct {
	T      byte
	N      uint64 // scalars
	S      []byte // string
	Fields []TField
	KT, VT byte // map
	ET     byte // list/set
	Elems  []*TV
	Keys   []*TV // map keys (Elems = values)
	Count  *uint32 // when set: written instead of the real element / entry count (corruption)
	Off    int     // offset of this node in the last serialisation
}

func (v *TV) count(n int) uint32 {
	if v.Count != nil {
		return *v.Count
	}
	return uint32(n)
}

// containers returns every map / set / list node of the tree
func (v *TV) containers(out *[]*TV) {
	switch v.T {
	case tSTRUCT:
		for _, x := range v.Fields {
			x.V.containers(out)
		}
	case tMAP:
		*out = append(*out, v)
		for i := range v.Keys {
			v.Keys[i].containers(out)
			v.Elems[i].containers(out)
		}
	case tSET, tLIST:
		*out = append(*out, v)
		for _, e := range v.Elems {
			e.containers(out)
		}
	}
}

func (v *TV) ser(b []byte) []byte {
	v.Off = len(b)
	switch v.T {
	case tBOOL, tBYTE:
		return append(b, byte(v.N))
	case tI16:
		return binary.BigEndian.AppendUint16(b, uint16(v.N))
	case tI32:
		return binary.BigEndian.AppendUint32(b, uint32(v.N))
	case tI64, tDOUBLE:
		return binary.BigEndian.AppendUint64(b, v.N)
	case tSTRING:
		b = binary.BigEndian.AppendUint32(b, uint32(len(v.S)))
		return append(b, v.S...)
	case tSTRUCT:
		for _, f := range v.Fields {
			b = append(b, f.V.T)
			b = binary.BigEndian.AppendUint16(b, f.ID)
			b = f.V.ser(b)
		}
		return append(b, 0)
	case tMAP:
		b = append(b, v.KT, v.VT)
		b = binary.BigEndian.AppendUint32(b, v.count(len(v.Keys)))
		for i := range v.Keys {
			b = v.Keys[i].ser(b)
			b = v.Elems[i].ser(b)
		}
		return b
	case tSET, tLIST:
		b = append(b, v.ET)
		b = binary.BigEndian.AppendUint32(b, v.count(len(v.Elems)))
		for _, e := range v.Elems {
			b = e.ser(b)
		}
		return b
	}
	return b
}

var errTV = errors.New("tv parse error")

func parseTV(t byte, b []byte, depth int) (*TV, []byte, error) {
	if depth <= 0 {
		return nil, nil, errTV
	}
	v := &TV{T: t}
	need := func(n int) bool { return len(b) >= n }
	switch t {
	case tBOOL, tBYTE:
		if !need(1) {
			return nil, nil, errTV
		}
		v.N = uint64(b[0])
		return v, b[1:], nil
	case tI16:
		if !need(2) {
			return nil, nil, errTV
		}
		v.N = uint64(binary.BigEndian.Uint16(b))
		return v, b[2:], nil
	case tI32:
		if !need(4) {
			return nil, nil, errTV
		}
		v.N = uint64(binary.BigEndian.Uint32(b))
		return v, b[4:], nil
	case tI64, tDOUBLE:
		if !need(8) {
			return nil, nil, errTV
		}
		v.N = binary.BigEndian.Uint64(b)
		return v, b[8:], nil
	case tSTRING:
		if !need(4) {
			return nil, nil, errTV
		}
		l := int(int32(binary.BigEndian.Uint32(b)))
		if l < 0 || len(b)-4 < l {
			return nil, nil, errTV
		}
		v.S = append([]byte{}, b[4:4+l]...)
		return v, b[4+l:], nil
	case tSTRUCT:
		for {
			if !need(1) {
				return nil, nil, errTV
			}
			ft := b[0]
			b = b[1:]
			if ft == 0 {
				return v, b, nil
			}
			if !need(2) {
				return nil, nil, errTV
			}
			id := binary.BigEndian.Uint16(b)
			b = b[2:]
			fv, r, err := parseTV(ft, b, depth-1)
			if err != nil {
				return nil, nil, err
			}
			b = r
			v.Fields = append(v.Fields, TField{id, fv})
		}
	case tMAP:
		if !need(6) {
			return nil, nil, errTV
		}
		v.KT, v.VT = b[0], b[1]
		l := int(int32(binary.BigEndian.Uint32(b[2:])))
		b = b[6:]
		if l < 0 || l > len(b) {
			return nil, nil, errTV
		}
		for i := 0; i < l; i++ {
			k, r, err := parseTV(v.KT, b, depth-1)
			if err != nil {
				return nil, nil, err
			}
			e, r2, err := parseTV(v.VT, r, depth-1)
			if err != nil {
				return nil, nil, err
			}
			b = r2
			v.Keys = append(v.Keys, k)
			v.Elems = append(v.Elems, e)
		}
		return v, b, nil
	case tSET, tLIST:
		if !need(5) {
			return nil, nil, errTV
		}
		v.ET = b[0]
		l := int(int32(binary.BigEndian.Uint32(b[1:])))
		b = b[5:]
		if l < 0 || l > len(b) {
			return nil, nil, errTV
		}
		for i := 0; i < l; i++ {
			e, r, err := parseTV(v.ET, b, depth-1)
			if err != nil {
				return nil, nil, err
			}
			b = r
			v.Elems = append(v.Elems, e)
		}
		return v, b, nil
	}
	return nil, nil, errTV
}

func parseStructMsg(b []byte) (*TV, error) {
	v, r, err := parseTV(tSTRUCT, b, 4096)
	if err != nil {
		return nil, err
	}
	if len(r) != 0 {
		return nil, errTV
	}
	return v, nil
}

var wireTypes = []byte{tBOOL, tBYTE, tDOUBLE, tI16, tI32, tI64, tSTRING, tSTRUCT, tMAP, tSET, tLIST}

func randTV(r *rand.Rand, t byte, depth int) *TV {
	v := &TV{T: t}
	switch t {
	case tBOOL:
		v.N = uint64(r.Intn(2))
	case tBYTE:
		v.N = uint64(r.Intn(256))
	case tI16:
		v.N = uint64(r.Intn(65536))
	case tI32:
		v.N = uint64(r.Uint32())
	case tI64, tDOUBLE:
		v.N = r.Uint64()
	case tSTRING:
		n := []int{0, 0, 1, 3, 10, 40}[r.Intn(6)]
		v.S = make([]byte, n)
		r.Read(v.S)
	case tSTRUCT:
		if depth > 0 {
			n := r.Intn(4)
			for i := 0; i < n; i++ {
				ft := wireTypes[r.Intn(len(wireTypes))]
				v.Fields = append(v.Fields, TField{uint16(1 + r.Intn(300)), randTV(r, ft, depth-1)})
			}
		}
	case tMAP:
		v.KT = []byte{tBOOL, tBYTE, tI16, tI32, tI64, tDOUBLE, tSTRING, tSTRUCT}[r.Intn(8)]
		v.VT = wireTypes[r.Intn(len(wireTypes))]
		if depth > 0 {
			n := r.Intn(3)
			for i := 0; i < n; i++ {
				v.Keys = append(v.Keys, randTV(r, v.KT, depth-1))
				v.Elems = append(v.Elems, randTV(r, v.VT, depth-1))
			}
		}
	case tSET, tLIST:
		v.ET = wireTypes[r.Intn(len(wireTypes))]
		if depth > 0 {
			n := r.Intn(4)
			for i := 0; i < n; i++ {
				v.Elems = append(v.Elems, randTV(r, v.ET, depth-1))
			}
		}
	}
	return v
}

// randUnknownFields returns well-formed field bytes (no STOP) with ids in [lo, lo+span).
func randUnknownFields(r *rand.Rand, lo, span, n int) []byte {
	var b []byte
	for i := 0; i < n; i++ {
		ft := wireTypes[r.Intn(len(wireTypes))]
		fv := randTV(r, ft, 2)
		b = append(b, ft)
		b = binary.BigEndian.AppendUint16(b, uint16(lo+r.Intn(span)))
		b = fv.ser(b)
	}
	return b
}

// walkStructs calls f on every struct node that the tree has when the walk starts (pre-order).
// The nodes are collected first: f may add fields (decorate does), and values added by f must not be
// visited in turn — otherwise every added struct value is decorated again and the tree can grow
// without bound (this made one thorough run of the unchanged tree run out of memory).
func (v *TV) walkStructs(f func(s *TV)) {
	var nodes []*TV
	v.collectStructs(&nodes)
	for _, n := range nodes {
		f(n)
	}
}

func (v *TV) collectStructs(out *[]*TV) {
	switch v.T {
	case tSTRUCT:
		*out = append(*out, v)
		for _, x := range v.Fields {
			x.V.collectStructs(out)
		}
	case tMAP:
		for i := range v.Keys {
			v.Keys[i].collectStructs(out)
			v.Elems[i].collectStructs(out)
		}
	case tSET, tLIST:
		for _, e := range v.Elems {
			e.collectStructs(out)
		}
	}
}

// noncanonBools: bool bytes other than 0 / 1 (well-formed Thrift, read as false) in list / set
// elements and map keys / values at every nesting level (field values are done by decorate).
// Nodes may be shared between duplicated fields: bool nodes are replaced, never modified.
func (v *TV) noncanonBools(r *rand.Rand) {
	odd := func(xs []*TV) {
		for i, x := range xs {
			if x.T == tBOOL && r.Intn(3) == 0 {
				nv := *x
				nv.N = uint64(2 + r.Intn(254))
				xs[i] = &nv
			}
		}
	}
	switch v.T {
	case tSTRUCT:
		for _, f := range v.Fields {
			f.V.noncanonBools(r)
		}
	case tMAP:
		odd(v.Keys)
		odd(v.Elems)
		for i := range v.Keys {
			v.Keys[i].noncanonBools(r)
			v.Elems[i].noncanonBools(r)
		}
	case tSET, tLIST:
		odd(v.Elems)
		for _, e := range v.Elems {
			e.noncanonBools(r)
		}
	}
}

// shuffleFields permutes the field order of every struct in the tree.
func (v *TV) shuffleFields(r *rand.Rand) {
	v.walkStructs(func(s *TV) {
		r.Shuffle(len(s.Fields), func(i, j int) { s.Fields[i], s.Fields[j] = s.Fields[j], s.Fields[i] })
	})
}
