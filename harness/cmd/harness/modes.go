package main

// One op stream per property (the -mode flag).  Every random choice comes from the single
// PRNG seeded by -seed, so a transcript replays exactly.

import (
	"encoding/binary"
	"fmt"
	"math/rand"
	"reflect"
	"runtime"
	"sync"

	"github.com/cloudwego/frugal"
	"github.com/cloudwego/frugal/verifharness/universe"
)

type ctx struct {
	h    *H
	r    *rand.Rand
	tier string
	n    int // scale
	// walkAll: run the memory walk (alignment, overlap, len <= cap) on every decode of the stream
	walkAll bool
}

func (c *ctx) accepted(groups ...string) []*universe.UStruct {
	var out []*universe.UStruct
	for i := range universe.Structs {
		u := &universe.Structs[i]
		if !u.Accept {
			continue
		}
		if len(groups) == 0 {
			if u.Group != "cluster" && u.Group != "clusterleaf" && u.Group != "huge" {
				out = append(out, u)
			}
			continue
		}
		for _, g := range groups {
			if u.Group == g {
				out = append(out, u)
			}
		}
	}
	return out
}

func (c *ctx) cfg() *genCfg {
	ml := 12
	if c.tier == "thorough" {
		ml = 48
	}
	return &genCfg{r: c.r, maxLen: ml, bigStr: true, depth: 3, enum32: true, holders: true}
}

func (c *ctx) newValue(u *universe.UStruct, g *genCfg) reflect.Value {
	c.h.spares = nil
	g.h = c.h
	p := reflect.New(u.Type)
	g.gen(p.Elem())
	return p
}

func fresh(u *universe.UStruct) reflect.Value {
	p := reflect.New(u.Type)
	if d, ok := p.Interface().(interface{ InitDefault() }); ok {
		d.InitDefault()
	}
	return p
}

// encode with the implementation (no transcript line); nil on failure
func encodeQuiet(p reflect.Value) []byte {
	var out []byte
	safely(func() string {
		n := frugal.EncodedSize(p.Interface())
		buf := make([]byte, n)
		m, err := frugal.EncodeObject(buf, nil, p.Interface())
		if err == nil && m == n {
			out = buf
		}
		return ""
	})
	return out
}

// ---- C02 / C04 / C10 / C16 : encode side ----

func (c *ctx) encodeSide(us []*universe.UStruct, perType int, bufVariants bool) {
	g := c.cfg()
	for _, u := range us {
		for i := 0; i < perType; i++ {
			if i == 0 {
				// zero value and nil pointer argument
				z := reflect.New(u.Type)
				c.h.opSize(u, z, false)
				c.h.opEnc(u, z, encOpt{bufLen: -1, extra: 8})
			}
			g2 := *g
			g2.enum32 = c.r.Intn(4) != 0
			g2.spareCap = c.r.Intn(2) == 0
			p := c.newValue(u, &g2)
			byval := c.r.Intn(3) == 0
			size := c.h.opSize(u, p, byval)
			c.h.opSize(u, p, !byval)
			c.h.opEnc(u, p, encOpt{byval: byval, bufLen: -1, extra: c.r.Intn(2) * 16})
			if c.r.Intn(3) == 0 {
				c.h.opEnc(u, p, encOpt{byval: !byval, bufLen: -1, extra: 64}) // repeat: same bytes up to map order
			}
			if bufVariants && size >= 0 {
				lens := []int{0, 1, size - 1, size + 1, size + 17}
				for k := 0; k < 3; k++ {
					lens = append(lens, c.r.Intn(size+1))
				}
				if c.tier == "thorough" && size <= 64 {
					for l := 0; l <= size; l++ {
						lens = append(lens, l)
					}
				}
				for _, l := range lens {
					if l < 0 {
						continue
					}
					for _, extra := range []int{0, size + 8} {
						c.h.opEnc(u, p, encOpt{byval: c.r.Intn(2) == 0, bufLen: l, extra: extra})
					}
				}
			}
		}
	}
}

// ---- C01 : round trip ----

func (c *ctx) roundTrip(us []*universe.UStruct, perType int) {
	g := c.cfg()
	var ks []*kept
	for _, u := range us {
		for i := 0; i < perType; i++ {
			k := c.rtOne(u, c.newValue(u, g), fresh(u))
			if k != nil {
				ks = append(ks, k)
			}
			if len(ks) >= 64 {
				c.h.checkKept(ks)
				ks = nil
			}
		}
	}
	c.h.checkKept(ks)
}

// rtOne: encode p, decode into d, and emit the whole round trip as one `rt` line that the driver
// checks against the normal form of C01 (Norm.lean), besides the `enc` and `dec` lines checked
// against the encoder and decoder models
func (c *ctx) rtOne(u *universe.UStruct, p, d reflect.Value) *kept {
	vs := showValue(p.Elem())
	b := c.h.opEnc(u, p, encOpt{bufLen: -1})
	if b == nil {
		return nil
	}
	before := showValue(d.Elem())
	ok, n, k := c.h.opDec(u, b, d, true)
	if ok && k != nil {
		c.h.emit(fmt.Sprintf("rt %d %s %s -> ok %d %s", u.Sid, vs, before, n, k.shown))
	} else {
		c.h.emit(fmt.Sprintf("rt %d %s %s -> fail", u.Sid, vs, before))
	}
	c.h.stats["rt"]++
	return k
}

// ---- messages for decode-side properties ----

// mkMessage encodes a random value of w and returns the parsed tree
func (c *ctx) mkMessage(w *universe.UStruct, g *genCfg) *TV {
	p := c.newValue(w, g)
	b := encodeQuiet(p)
	if b == nil {
		return nil
	}
	tv, err := parseStructMsg(b)
	if err != nil {
		return nil
	}
	return tv
}

// decorate: shuffle field order, duplicate fields, insert unknown fields of every wire type
func (c *ctx) decorate(tv *TV) {
	r := c.r
	tv.walkStructs(func(s *TV) {
		if r.Intn(3) == 0 && len(s.Fields) > 0 {
			f := s.Fields[r.Intn(len(s.Fields))]
			s.Fields = append(s.Fields, f) // duplicate occurrence
		}
		for i := range s.Fields {
			// a bool byte other than 0 / 1 is well-formed Thrift; the decoder stores it as it is
			if s.Fields[i].V.T == tBOOL && r.Intn(6) == 0 {
				nv := *s.Fields[i].V
				nv.N = uint64(2 + r.Intn(254))
				s.Fields[i].V = &nv
			}
		}
		if r.Intn(2) == 0 {
			n := 1 + r.Intn(3)
			for i := 0; i < n; i++ {
				ft := wireTypes[r.Intn(len(wireTypes))]
				id := uint16(1 + r.Intn(40))
				if r.Intn(2) == 0 {
					id = uint16(150 + r.Intn(200))
				}
				if r.Intn(12) == 0 {
					id = []uint16{0, 65535, 32768}[r.Intn(3)]
				}
				s.Fields = append(s.Fields, TField{id, randTV(r, ft, 2)})
			}
		}
	})
	if r.Intn(3) == 0 {
		tv.noncanonBools(r)
	}
	if r.Intn(4) != 0 {
		tv.shuffleFields(r)
	}
}

// prune: drop fields of structs at every nesting level, as a writer with an older schema would
// (absent fields of nested structs must then read as the declared defaults)
func (c *ctx) prune(tv *TV, p int) {
	r := c.r
	tv.walkStructs(func(s *TV) {
		if len(s.Fields) == 0 || r.Intn(2) == 0 {
			return
		}
		var keep []TField
		for _, f := range s.Fields {
			if r.Intn(p) != 0 {
				keep = append(keep, f)
			}
		}
		s.Fields = keep
	})
}

// sparsify: every struct that is an element / key / value of a container keeps at most one of its
// fields (an older writer that knew few of them), and one such container becomes the last field of
// the message: a lower bound on element sizes derived from the reader's schema would reject it
func (c *ctx) sparsify(tv *TV) bool {
	r := c.r
	last := -1
	for i, f := range tv.Fields {
		var elems []*TV
		switch f.V.T {
		case tLIST, tSET:
			elems = f.V.Elems
		case tMAP:
			elems = append(append(elems, f.V.Keys...), f.V.Elems...)
		}
		any := false
		for _, e := range elems {
			if e.T != tSTRUCT {
				continue
			}
			any = true
			if len(e.Fields) > 1 {
				k := r.Intn(len(e.Fields))
				e.Fields = []TField{e.Fields[k]}
			}
			if r.Intn(3) == 0 {
				e.Fields = nil
			}
		}
		if any && (last < 0 || r.Intn(2) == 0) {
			last = i
		}
	}
	if last < 0 {
		return false
	}
	f := tv.Fields[last]
	tv.Fields = append(append(tv.Fields[:last:last], tv.Fields[last+1:]...), f)
	return true
}

func (c *ctx) dest(u *universe.UStruct, g *genCfg) reflect.Value {
	switch c.r.Intn(3) {
	case 0:
		return reflect.New(u.Type)
	case 1:
		return fresh(u)
	}
	g2 := *g
	g2.holders = c.r.Intn(2) == 0
	return c.newValue(u, &g2) // prior contents
}

func (c *ctx) writerOf(u *universe.UStruct) *universe.UStruct {
	if u.Writer >= 0 {
		return universe.BySid(u.Writer)
	}
	return u
}

func (c *ctx) decodeSide(us []*universe.UStruct, perType int, reencode bool) {
	g := c.cfg()
	g.maxLen = 6
	var ks []*kept
	for _, u := range us {
		w := c.writerOf(u)
		// boundary of the count checks: containers whose elements all take their smallest encoding
		// (empty strings / lists / sets / maps, zero structs), nothing but STOP bytes behind them
		for _, n := range []int{1, 2, 3, 9} {
			gm := c.cfg()
			gm.minimal, gm.minLen, gm.maxLen, gm.bigStr = true, n, n, false
			if tv := c.mkMessage(w, gm); tv != nil {
				c.h.opDec(u, tv.ser(nil), c.dest(u, g), c.walkAll)
				// … and each container field alone in its message: the container then ends at the
				// last byte but one, which is where a count check is tight
				for _, f := range tv.Fields {
					if f.V.T == tMAP || f.V.T == tSET || f.V.T == tLIST {
						one := &TV{T: tSTRUCT, Fields: []TField{f}}
						c.h.opDec(u, one.ser(nil), c.dest(u, g), false)
					}
				}
			}
		}
		for k := 0; k < 2; k++ {
			gm := c.cfg()
			gm.minLen, gm.maxLen, gm.bigStr = 2, 4, false
			if tv := c.mkMessage(w, gm); tv != nil && c.sparsify(tv) {
				c.h.opDec(u, tv.ser(nil), c.dest(u, g), false)
			}
		}
		for i := 0; i < perType; i++ {
			tv := c.mkMessage(w, g)
			if tv == nil {
				continue
			}
			if i%3 == 1 {
				c.prune(tv, 3)
			}
			if i%4 != 0 {
				c.decorate(tv)
			}
			msg := tv.ser(nil)
			if c.r.Intn(3) == 0 {
				trail := make([]byte, c.r.Intn(9))
				c.r.Read(trail)
				msg = append(msg, trail...)
			}
			d := c.dest(u, g)
			ok, _, k := c.h.opDec(u, msg, d, c.walkAll)
			if k != nil {
				ks = append(ks, k)
			}
			if ok && reencode {
				// second hop: re-encode what was decoded, decode it with the writer's schema
				b := c.h.opEnc(u, d, encOpt{bufLen: -1})
				c.h.opSize(u, d, false)
				if b != nil {
					c.h.opDec(w, b, fresh(w), false)
				}
			}
			if len(ks) >= 64 {
				c.h.checkKept(ks)
				ks = nil
			}
		}
	}
	c.h.checkKept(ks)
}

// ---- C05 : malformed input ----

func (c *ctx) malformed(us []*universe.UStruct, perType int) {
	g := c.cfg()
	g.maxLen = 4
	g.bigStr = false
	r := c.r
	for _, u := range us {
		for i := 0; i < perType; i++ {
			// the first message of every type has no empty container, so that the count sweep below
			// reaches every container position of the type whatever the map iteration order
			g.minLen = 0
			if i == 0 {
				g.minLen = 2
			}
			tv := c.mkMessage(c.writerOf(u), g)
			if tv == nil {
				continue
			}
			if i > 0 && r.Intn(2) == 0 {
				c.decorate(tv)
			}
			msg := tv.ser(nil)
			if len(msg) > 400 && (i > 0 || len(msg) > 1200) {
				continue
			}
			var inputs [][]byte
			// every prefix (quick: sampled)
			step := 1
			if c.tier != "thorough" && len(msg) > 40 {
				step = 1 + len(msg)/40
			}
			if i == 0 && len(msg) > 400 {
				step = len(msg) // the full-container message is for the count sweep only
			}
			for l := 0; l < len(msg); l += step {
				inputs = append(inputs, msg[:l])
			}
			// single-byte substitutions
			nsub := 12
			if c.tier == "thorough" {
				nsub = 60
			}
			for k := 0; k < nsub && len(msg) > 0; k++ {
				m := append([]byte{}, msg...)
				pos := r.Intn(len(m))
				switch r.Intn(5) {
				case 0:
					m[pos] = 0xff
				case 1:
					m[pos] = 0
				case 2:
					m[pos] = wireTypes[r.Intn(len(wireTypes))]
				case 3:
					m[pos] ^= 1 << uint(r.Intn(8))
				default:
					m[pos] = byte(r.Intn(256))
				}
				inputs = append(inputs, m)
			}
			// length / count fields: overwrite 4 bytes at a random position
			for k := 0; k < nsub/2 && len(msg) >= 4; k++ {
				m := append([]byte{}, msg...)
				pos := r.Intn(len(m) - 3)
				remain := len(m) - pos - 4
				v := []uint32{0xffffffff, 0x7fffffff, uint32(remain), uint32(remain + 1), uint32(remain/2 + 1), 0x80000000, 1 << 20}[r.Intn(7)]
				binary.BigEndian.PutUint32(m[pos:], v)
				inputs = append(inputs, m)
			}
			// structure-aware: every container's count set to values around remaining/k
			var conts []*TV
			tv.containers(&conts)
			for ci, cn := range conts {
				if ci >= 12 && c.tier != "thorough" {
					break
				}
				whole := len(tv.ser(nil))
				hdr := 5
				if cn.T == tMAP {
					hdr = 6
				}
				remain := whole - cn.Off - hdr // what the decoder sees as the remaining buffer
				for k := 1; k <= 17; k++ {
					for _, d := range []int{-1, 0, 1} {
						cv := uint32(remain/k + d)
						cn.Count = &cv
						inputs = append(inputs, tv.ser(nil))
					}
				}
				n := len(cn.Elems)
				for _, cv := range []uint32{uint32(n + 1), uint32(n + 2), uint32(2*n + 1), 0x7fffffff, 0xffffffff} {
					cv := cv
					cn.Count = &cv
					inputs = append(inputs, tv.ser(nil))
				}
				// counts whose product with a per-element size wraps 32 bits (or overflows int32) back into
				// the remaining length: a count check done by multiplication in a narrow integer passes
				for _, w := range []uint64{2, 3, 4, 5, 6, 8, 9, 10, 12, 13, 16, 17, 20, 24} {
					for _, base := range []uint64{1 << 32, 1 << 31} {
						cv := uint32(base/w + 1)
						cn.Count = &cv
						inputs = append(inputs, tv.ser(nil))
					}
				}
				cn.Count = nil
				if len(inputs) > 4000 {
					break
				}
			}
			// splice
			if tv2 := c.mkMessage(c.writerOf(u), g); tv2 != nil {
				m2 := tv2.ser(nil)
				cut1, cut2 := r.Intn(len(msg)+1), r.Intn(len(m2)+1)
				inputs = append(inputs, append(append([]byte{}, msg[:cut1]...), m2[cut2:]...))
			}
			rb := make([]byte, r.Intn(24))
			r.Read(rb)
			inputs = append(inputs, rb)
			for _, in := range inputs {
				c.h.opDec(u, in, reflect.New(u.Type), false)
			}
		}
	}
}

// allocation proportionality: decode with corrupted counts and measure TotalAlloc
func (c *ctx) allocBound(us []*universe.UStruct) {
	for _, u := range us {
		for _, l := range []uint32{0x7fffffff, 0x10000000, 1 << 24} {
			for _, et := range []byte{tI32, tSTRING, tSTRUCT, tBYTE, tI64} {
				for _, id := range []uint16{1, 2, 3} {
					// field header + list header with a huge count and 16 bytes of payload
					var m []byte
					m = append(m, tLIST, byte(id>>8), byte(id), et)
					m = binary.BigEndian.AppendUint32(m, l)
					m = append(m, make([]byte, 16)...)
					m = append(m, 0)
					mm := append([]byte{tMAP, byte(id >> 8), byte(id), tI32, et}, m[4:]...)
					for _, in := range [][]byte{m, mm} {
						var ms0, ms1 runtime.MemStats
						runtime.GC()
						runtime.ReadMemStats(&ms0)
						c.h.opDec(u, in, reflect.New(u.Type), false)
						runtime.ReadMemStats(&ms1)
						if d := ms1.TotalAlloc - ms0.TotalAlloc; d > 1<<20 {
							c.h.oracle("C05", fmt.Sprintf("decode of %d input bytes allocated %d bytes sid=%d in=%x", len(in), d, u.Sid, in))
						}
					}
				}
			}
		}
	}
}

// ---- C09 : required fields ----

func (c *ctx) requiredFields(us []*universe.UStruct, perType int) {
	g := c.cfg()
	g.maxLen = 3
	for _, u := range us {
		// systematically: every single top-level field missing in turn (the first 16 and 4 random ones
		// of wider types), everything else present
		gf := c.cfg()
		gf.maxLen, gf.minLen, gf.bigStr = 2, 1, false
		if tv := c.mkMessage(c.writerOf(u), gf); tv != nil && len(tv.Fields) > 0 {
			var ks []int
			for k := 0; k < len(tv.Fields) && k < 16; k++ {
				ks = append(ks, k)
			}
			for k := 0; k < 4 && len(tv.Fields) > 16; k++ {
				ks = append(ks, 16+c.r.Intn(len(tv.Fields)-16))
			}
			for _, k := range ks {
				one := &TV{T: tSTRUCT}
				one.Fields = append(append([]TField{}, tv.Fields[:k]...), tv.Fields[k+1:]...)
				c.h.opDec(u, one.ser(nil), fresh(u), false)
			}
		}
		for i := 0; i < perType; i++ {
			tv := c.mkMessage(c.writerOf(u), g)
			if tv == nil {
				continue
			}
			// drop random fields at random struct nodes; sometimes retype one
			tv.walkStructs(func(s *TV) {
				if c.r.Intn(2) == 0 && len(s.Fields) > 0 {
					k := c.r.Intn(len(s.Fields))
					switch c.r.Intn(6) {
					case 0:
						s.Fields[k].V = randTV(c.r, wireTypes[c.r.Intn(len(wireTypes))], 1)
					case 1, 2:
						// an occurrence of another field takes the dropped one's place: the message has
						// as many fields as before, one of them twice
						if len(s.Fields) > 1 {
							o := (k + 1 + c.r.Intn(len(s.Fields)-1)) % len(s.Fields)
							s.Fields[k] = s.Fields[o]
						}
					default:
						s.Fields = append(s.Fields[:k], s.Fields[k+1:]...)
					}
				}
			})
			if c.r.Intn(2) == 0 {
				tv.shuffleFields(c.r)
			}
			c.h.opDec(u, tv.ser(nil), c.dest(u, g), false)
		}
	}
}

// ---- C15 : nesting depth ----

// nest builds depth levels following the given shape cycle around a recursive struct whose
// field ids are: 2 = *self, 3 = list<*self>, 4 = map<string,*self>, 5 = map<string,self>, 6 = list<list<*self>>,
// 7 = map<*self,i32>, 8 = set<*self>
func nestMsg(shapes []int, depth int, unknown bool) []byte {
	var open, close []byte
	for d := 0; d < depth; d++ {
		sh := shapes[d%len(shapes)]
		id := byte(sh)
		if unknown {
			id += 100
		}
		switch sh {
		case 2:
			open = append(open, tSTRUCT, 0, id)
		case 3, 8:
			t := byte(tLIST)
			if sh == 8 {
				t = tSET
			}
			open = append(open, t, 0, id, tSTRUCT, 0, 0, 0, 1)
		case 4, 5:
			open = append(open, tMAP, 0, id, tSTRING, tSTRUCT, 0, 0, 0, 1, 0, 0, 0, 1, 'k')
		case 6:
			open = append(open, tLIST, 0, id, tLIST, 0, 0, 0, 1, tSTRUCT, 0, 0, 0, 1)
		case 7:
			open = append(open, tMAP, 0, id, tSTRUCT, tI32, 0, 0, 0, 1)
		}
	}
	for d := depth - 1; d >= 0; d-- {
		sh := shapes[d%len(shapes)]
		close = append(close, 0) // STOP of the inner struct
		if sh == 7 {
			close = append(close, 0, 0, 0, 9) // the i32 value after the key struct
		}
	}
	return append(append(open, close...), 0)
}

// wideMsg: `under` levels of struct nesting (field 2), then one container (shape sh) with `width`
// entries whose struct members are empty
func wideMsg(sh, width, under int) []byte {
	var b []byte
	for d := 0; d < under; d++ {
		b = append(b, tSTRUCT, 0, 2)
	}
	w := uint32(width)
	switch sh {
	case 3:
		b = append(b, tLIST, 0, 3, tSTRUCT, byte(w>>24), byte(w>>16), byte(w>>8), byte(w))
		for i := 0; i < width; i++ {
			b = append(b, 0)
		}
	case 4, 5:
		b = append(b, tMAP, 0, byte(sh), tSTRING, tSTRUCT, byte(w>>24), byte(w>>16), byte(w>>8), byte(w))
		for i := 0; i < width; i++ {
			b = append(b, 0, 0, 0, 2, byte(i>>8), byte(i), 0)
		}
	case 7:
		b = append(b, tMAP, 0, 7, tSTRUCT, tI32, byte(w>>24), byte(w>>16), byte(w>>8), byte(w))
		for i := 0; i < width; i++ {
			b = append(b, 0, 0, 0, byte(i>>8), byte(i))
		}
	}
	for d := 0; d <= under; d++ {
		b = append(b, 0)
	}
	return b
}

func (c *ctx) depthProbe(node *universe.UStruct) {
	shapesList := [][]int{{2}, {3}, {4}, {5}, {6}, {7}, {8}, {2, 3}, {3, 2, 2}, {2, 4, 6}, {3, 3, 2}, {7, 2}, {5, 3}}
	depths := []int{1, 2, 10, 30, 47, 48, 49, 63, 64, 65, 100, 170, 171, 255, 256, 257, 340, 341, 342, 510, 511, 512, 513, 600, 1022, 1023, 1024, 2000}
	if c.tier == "thorough" {
		for d := 200; d < 1100; d += 7 {
			depths = append(depths, d)
		}
		depths = append(depths, 5000, 20000, 100000)
	} else {
		depths = append(depths, 5000)
	}
	for _, sh := range shapesList {
		for _, d := range depths {
			for _, unk := range []bool{false, true} {
				if unk && d > 200 {
					continue
				}
				c.h.opDec(node, nestMsg(sh, d, unk), reflect.New(node.Type), false)
			}
		}
	}
	// wide but shallow: many entries / elements at small depth must not cost depth
	for _, under := range []int{0, 40} {
		for _, width := range []int{600, 1021, 1022, 1100, 3000} {
			for _, sh := range []int{4, 5, 3, 7} {
				c.h.opDec(node, wideMsg(sh, width, under), reflect.New(node.Type), false)
			}
		}
	}
	// random mixtures (this is where a lost zero test between two decrements shows up)
	for k := 0; k < c.n*4; k++ {
		l := 1 + c.r.Intn(6)
		sh := make([]int, l)
		for i := range sh {
			sh[i] = []int{2, 2, 3, 4, 5, 6, 7, 8}[c.r.Intn(8)]
		}
		d := []int{300, 400, 520, 700, 1100, 3000}[c.r.Intn(6)] + c.r.Intn(40)
		c.h.opDec(node, nestMsg(sh, d, false), reflect.New(node.Type), false)
	}
}

// poolResidue: a decode that sets presence bits / fills scratch for ids that the NEXT decode, of
// another type, requires but does not receive (and the other way round)
func (c *ctx) poolResidue(us []*universe.UStruct, rounds int) {
	g := c.cfg()
	g.maxLen = 3
	for i := 0; i < rounds; i++ {
		a := us[c.r.Intn(len(us))]
		b := us[c.r.Intn(len(us))]
		// message for a: complete
		if tv := c.mkMessage(c.writerOf(a), g); tv != nil {
			if c.r.Intn(2) == 0 {
				c.decorate(tv)
			}
			m := tv.ser(nil)
			switch c.r.Intn(3) {
			case 0:
				// … or a decode of a that FAILS after most of its fields have been read (the last byte
				// — the STOP — cut off, or the message cut in the middle): whatever the failed call had
				// marked as present must not survive in pooled scratch
				c.h.opDec(a, m[:len(m)-1], c.dest(a, g), false)
			case 1:
				c.h.opDec(a, m[:len(m)/2+c.r.Intn(len(m)/2+1)], c.dest(a, g), false)
			default:
				c.h.opDec(a, m, c.dest(a, g), false)
			}
		}
		// message for b built from ANY type's message: b's required fields are mostly absent
		src := us[c.r.Intn(len(us))]
		if tv := c.mkMessage(c.writerOf(src), g); tv != nil {
			if c.r.Intn(2) == 0 && len(tv.Fields) > 0 {
				tv.Fields = tv.Fields[:c.r.Intn(len(tv.Fields))]
			}
			c.h.opDec(b, tv.ser(nil), c.dest(b, g), false)
		}
		c.h.opDec(b, []byte{0}, reflect.New(b.Type), false)
	}
}

// ---- C07 : histories ----

func (c *ctx) history(us []*universe.UStruct, steps int) {
	g := c.cfg()
	g.maxLen = 5
	var ks []*kept
	for i := 0; i < steps; i++ {
		u := us[c.r.Intn(len(us))]
		switch c.r.Intn(8) {
		case 0:
			c.h.opSize(u, c.newValue(u, g), c.r.Intn(2) == 0)
		case 1, 2:
			c.h.opEnc(u, c.newValue(u, g), encOpt{byval: c.r.Intn(2) == 0, bufLen: -1})
		case 3:
			// a failing call: truncated message
			if tv := c.mkMessage(c.writerOf(u), g); tv != nil {
				m := tv.ser(nil)
				if _, _, k := c.h.opDec(u, m[:c.r.Intn(len(m))], c.dest(u, g), false); k != nil {
					ks = append(ks, k)
				}
			}
		case 4:
			// rejected type in between
			for k := 0; k < 3; k++ {
				x := &universe.Structs[c.r.Intn(len(universe.Structs))]
				if !x.Accept {
					c.h.opResolve(x)
					break
				}
			}
		default:
			if tv := c.mkMessage(c.writerOf(u), g); tv != nil {
				if c.r.Intn(2) == 0 {
					c.decorate(tv)
				}
				_, _, k := c.h.opDec(u, tv.ser(nil), c.dest(u, g), false)
				if k != nil {
					ks = append(ks, k)
				}
			}
		}
		if len(ks) >= 48 {
			c.h.checkKept(ks)
			ks = nil
		}
	}
	c.h.checkKept(ks)
}

// ---- C08 : concurrency ----

func (c *ctx) concurrent(us []*universe.UStruct, workers, steps int) {
	// every worker produces its own transcript lines into a private H; lines are merged after
	var wg sync.WaitGroup
	outs := make([]*H, workers)
	seeds := make([]int64, workers)
	for w := range seeds {
		seeds[w] = c.r.Int63()
	}
	start := make(chan struct{})
	for w := 0; w < workers; w++ {
		w := w
		hh := newBufH()
		outs[w] = hh
		wg.Add(1)
		go func() {
			defer wg.Done()
			cc := &ctx{h: hh, r: rand.New(rand.NewSource(seeds[w])), tier: c.tier, n: c.n}
			<-start
			// first use of many types at once, in a different order per worker
			perm := cc.r.Perm(len(us))
			for _, i := range perm[:min(len(perm), steps)] {
				u := us[i]
				g := cc.cfg()
				g.maxLen = 4
				p := cc.newValue(u, g)
				b := hh.opEnc(u, p, encOpt{byval: cc.r.Intn(2) == 0, bufLen: -1})
				if b != nil {
					hh.opDec(u, b, fresh(u), false)
				}
				if cc.r.Intn(3) == 0 {
					if tv := cc.mkMessage(cc.writerOf(u), g); tv != nil {
						cc.decorate(tv)
						hh.opDec(u, tv.ser(nil), cc.dest(u, g), false)
					}
				}
				// the error paths run concurrently too: a container whose element / key / value code is not
				// a Thrift type code (the same few codes in every worker: P1 raced on a per-code cache slot)
				if cc.r.Intn(2) == 0 {
					if tv := cc.mkMessage(u, g); tv != nil {
						var conts []*TV
						tv.containers(&conts)
						if len(conts) > 0 {
							cn := conts[cc.r.Intn(len(conts))]
							bad := []byte{1, 5, 7, 9, 16, 0x11, 0x20, 0x7f}[cc.r.Intn(8)]
							switch {
							case cn.T != tMAP:
								cn.ET = bad
							case cc.r.Intn(2) == 0:
								cn.KT = bad
							default:
								cn.VT = bad
							}
							hh.opDec(u, tv.ser(nil), fresh(u), false)
						}
					}
				}
			}
		}()
	}
	close(start)
	wg.Wait()
	c.storms(outs, seeds)
	for _, hh := range outs {
		hh.out.Flush()
		c.h.out.Write(hh.buf.Bytes())
		for k, v := range hh.stats {
			c.h.stats[k] += v
		}
		c.h.nops += hh.nops
	}
}

// clusterFirstUse: the W and B types of every cluster are first used at the same moment by
// several goroutines (values with non-nil nested pointers so that a half-built descriptor faults)
func (c *ctx) clusterFirstUse(out *H) {
	var ws []*universe.UStruct
	for i := range universe.Structs {
		if universe.Structs[i].Group == "cluster" {
			ws = append(ws, &universe.Structs[i])
		}
	}
	g := c.cfg()
	g.maxLen = 2
	g.depth = 4
	type item struct {
		u *universe.UStruct
		p reflect.Value
	}
	// values are prepared before the storm (generation uses reflect only, not frugal)
	var groups [][]item
	for i := 0; i+2 < len(ws); i += 3 {
		var its []item
		for _, u := range []*universe.UStruct{ws[i], ws[i+2], ws[i], ws[i+2], ws[i+1]} {
			var p reflect.Value
			for try := 0; try < 20; try++ {
				p = c.newValue(u, g)
				if !p.Elem().Field(0).IsNil() {
					break
				}
			}
			its = append(its, item{u, p})
		}
		groups = append(groups, its)
	}
	var mu sync.Mutex
	for gi, its := range groups {
		var wg sync.WaitGroup
		start := make(chan struct{})
		for k, it := range its {
			k, it := k, it
			hh := newBufH()
			wg.Add(1)
			go func() {
				defer wg.Done()
				<-start
				for spin := 0; spin < (k*37+gi*11)%200; spin++ {
					runtime.Gosched()
				}
				hh.opEnc(it.u, it.p, encOpt{bufLen: -1})
				hh.opSize(it.u, it.p, false)
				hh.out.Flush()
				mu.Lock()
				out.out.Write(hh.buf.Bytes())
				out.nops += hh.nops
				for kk, v := range hh.stats {
					out.stats[kk] += v
				}
				mu.Unlock()
			}()
		}
		close(start)
		wg.Wait()
	}
}

// bigByValueStorm: concurrent by-value encodes of multi-megabyte values on one and two Ps; every
// goroutine checks that the bytes equal those of a sequential encode of its own (unmodified) value
func (c *ctx) bigByValueStorm() {
	var u *universe.UStruct
	fi := -1
	for _, x := range c.accepted("lists") {
		for _, f := range x.Fields {
			ft := x.Type.Field(f.Index).Type
			if ft.Kind() == reflect.Slice && ft.Elem().Kind() == reflect.Int64 && ft.Elem().Name() == "int64" {
				u, fi = x, f.Index
				break
			}
		}
		if u != nil {
			break
		}
	}
	if u == nil {
		return
	}
	const workers = 6
	vals := make([]reflect.Value, workers)
	want := make([][]byte, workers)
	for w := 0; w < workers; w++ {
		p := reflect.New(u.Type)
		l := make([]int64, 400000)
		for i := range l {
			l[i] = int64(w + 1)
		}
		p.Elem().Field(fi).Set(reflect.ValueOf(l))
		// worker-specific content in the scalar-list fields before and after the long one
		for _, f := range u.Fields {
			fv := p.Elem().Field(f.Index)
			switch fv.Interface().(type) {
			case []int32:
				fv.Set(reflect.ValueOf([]int32{int32(w), int32(w * 7), -int32(w)}))
			case []int16:
				fv.Set(reflect.ValueOf([]int16{int16(w + 100)}))
			case []float64:
				fv.Set(reflect.ValueOf([]float64{float64(w) + 0.5, float64(w)}))
			case []string:
				fv.Set(reflect.ValueOf([]string{fmt.Sprintf("worker-%d", w)}))
			}
		}
		vals[w] = p
		want[w] = encodeQuiet(p)
	}
	for _, procs := range []int{1, 2} {
		prev := runtime.GOMAXPROCS(procs)
		var wg sync.WaitGroup
		fails := make([]string, workers)
		for w := 0; w < workers; w++ {
			w := w
			wg.Add(1)
			go func() {
				defer wg.Done()
				buf := make([]byte, len(want[w]))
				for it := 0; it < 25; it++ {
					res := safely(func() string {
						n, err := frugal.EncodeObject(buf, nil, vals[w].Elem().Interface())
						if err != nil || n != len(want[w]) {
							return fmt.Sprintf("n=%d err=%v", n, err)
						}
						if string(buf[:n]) != string(want[w]) {
							return "bytes differ from the sequential encoding of the same value"
						}
						return "ok"
					})
					if res != "ok" {
						fails[w] = res
						return
					}
				}
			}()
		}
		wg.Wait()
		runtime.GOMAXPROCS(prev)
		for w, f := range fails {
			if f != "" {
				c.h.oracle("C16", fmt.Sprintf("concurrent by-value EncodeObject (GOMAXPROCS=%d, worker %d, sid=%d): %s", procs, w, u.Sid, f))
				c.h.oracle("C08", fmt.Sprintf("concurrent by-value EncodeObject (GOMAXPROCS=%d, worker %d, sid=%d): %s", procs, w, u.Sid, f))
			}
		}
		c.h.stats["bigbyvalue_rounds"]++
	}
}

// storms: (a) concurrent decodes into holder-bearing readers of messages with many unknown fields;
// (b) concurrent by-value encodes of long values with few Ps (pooled scratch copies).
func (c *ctx) storms(outs []*H, seeds []int64) {
	var holders []*universe.UStruct
	for _, u := range c.accepted("evolution", "leaf", "recursive", "random") {
		if u.Holder {
			holders = append(holders, u)
		}
	}
	type job struct {
		u   *universe.UStruct
		msg []byte
	}
	g := c.cfg()
	g.maxLen = 4
	var jobs []job
	for i := 0; i < 40*c.n && len(holders) > 0; i++ {
		u := holders[c.r.Intn(len(holders))]
		tv := c.mkMessage(c.writerOf(u), g)
		if tv == nil {
			continue
		}
		for k := 0; k < 6; k++ {
			tv.Fields = append(tv.Fields, TField{uint16(300 + c.r.Intn(3000)), randTV(c.r, wireTypes[c.r.Intn(len(wireTypes))], 2)})
		}
		tv.shuffleFields(c.r)
		jobs = append(jobs, job{u, tv.ser(nil)})
	}
	var wg sync.WaitGroup
	for w, hh := range outs {
		w, hh := w, hh
		wg.Add(1)
		go func() {
			defer wg.Done()
			r := rand.New(rand.NewSource(seeds[w] + 7))
			for i := 0; i < 30*c.n && len(jobs) > 0; i++ {
				j := jobs[r.Intn(len(jobs))]
				hh.opDec(j.u, j.msg, reflect.New(j.u.Type), false)
			}
		}()
	}
	wg.Wait()
	// (a') decodes of messages whose nested structs omit fields, into types whose nested structs
	// declare defaults: the default initialiser of one descriptor is then run by many goroutines
	var djobs []job
	gd := c.cfg()
	gd.maxLen = 5
	gd.minLen = 2
	gd.bigStr = false
	// … mostly long containers of such structs (the window between preparing a descriptor's
	// initialiser and running it is a few instructions: it takes millions of nested structs)
	gl := c.cfg()
	gl.minLen, gl.maxLen, gl.bigStr = 24, 24, false
	for _, u := range c.accepted("defaults") {
		for k := 0; k < 2; k++ {
			if tv := c.mkMessage(c.writerOf(u), gl); tv != nil {
				c.prune(tv, 2)
				djobs = append(djobs, job{u, tv.ser(nil)})
			}
		}
	}
	for _, u := range c.accepted("maps", "lists") {
		tv := c.mkMessage(c.writerOf(u), gd)
		if tv == nil {
			continue
		}
		c.prune(tv, 2)
		if m := tv.ser(nil); len(m) < 3000 && c.r.Intn(4) == 0 {
			djobs = append(djobs, job{u, m})
		}
	}
	// sequential reference results, computed before the storm by the same implementation
	type ref struct {
		v     reflect.Value
		shown string
	}
	refs := make([]ref, len(djobs))
	for i, j := range djobs {
		d, b, res, n := decRaw(j.u, j.msg)
		refs[i] = ref{d, showRaw(d, b, res, n)}
	}
	for w, hh := range outs {
		w, hh := w, hh
		wg.Add(1)
		go func() {
			defer wg.Done()
			r := rand.New(rand.NewSource(seeds[w] + 9))
			for i := 0; i < 25*c.n && len(djobs) > 0; i++ {
				j := djobs[r.Intn(len(djobs))]
				hh.opDec(j.u, j.msg, reflect.New(j.u.Type), false)
			}
			// the bulk of the storm is compared in-process with the sequential result (cheaply:
			// DeepEqual first, rendering only when that differs — NaNs make it differ spuriously);
			// a real difference is written to the transcript so that the model judges it too
			bad := 0
			const burst = 64
			type out struct {
				d   reflect.Value
				b   []byte
				res string
				n   int
			}
			outsB := make([]out, burst)
			for round := 0; round < 40*c.n && len(djobs) > 0 && bad < 3; round++ {
				k := r.Intn(len(djobs))
				j := djobs[k]
				for x := range outsB {
					d, b, res, n := decRaw(j.u, j.msg)
					outsB[x] = out{d, b, res, n}
				}
				for _, o := range outsB {
					hh.stats["dec_quiet"]++
					if o.res == "ok" && reflect.DeepEqual(o.d.Interface(), refs[k].v.Interface()) {
						continue
					}
					got := showRaw(o.d, o.b, o.res, o.n)
					if got != refs[k].shown {
						bad++
						hh.emit(decLine(j.u, j.msg) + " -> " + got)
						hh.oracle("C08", fmt.Sprintf("concurrent DecodeObject differs from the sequential result sid=%d in=%s sequential=%s concurrent=%s",
							j.u.Sid, hexOrDash(j.msg), clip(refs[k].shown), clip(got)))
						break
					}
				}
			}
		}()
	}
	wg.Wait()
	// (b) by-value encodes
	prev := runtime.GOMAXPROCS(2)
	defer runtime.GOMAXPROCS(prev)
	bv := c.accepted("lists", "byvalue")
	type ejob struct {
		u *universe.UStruct
		p reflect.Value
	}
	var ejobs []ejob
	gb := c.cfg()
	gb.maxLen = 40
	gb.bigStr = false
	gb.holders = false
	for i := 0; i < 4 && len(bv) > 0; i++ {
		u := bv[c.r.Intn(len(bv))]
		for k := 0; k < 3; k++ {
			ejobs = append(ejobs, ejob{u, c.newValue(u, gb)})
		}
	}
	for w, hh := range outs {
		w, hh := w, hh
		wg.Add(1)
		go func() {
			defer wg.Done()
			r := rand.New(rand.NewSource(seeds[w] + 11))
			for i := 0; i < 2*c.n && len(ejobs) > 0; i++ {
				j := ejobs[r.Intn(len(ejobs))]
				hh.opEnc(j.u, j.p, encOpt{byval: true, bufLen: -1})
				runtime.Gosched()
			}
		}()
	}
	wg.Wait()
}

func min(a, b int) int {
	if a < b {
		return a
	}
	return b
}
