// Package universe holds the generated type universe (universe_gen.go is written by
// cmd/gentypes for every run) and the small static API the harness uses to walk it.
package universe

import (
	"reflect"
	"sync/atomic"
)

// UField is one tagged (schema) field of a struct, in field-id order.
type UField struct {
	GoName string
	ID     int
	Index  int // index in the Go struct
}

type UStruct struct {
	Sid    int
	Name   string
	Type   reflect.Type // the struct type (by value)
	Fields []UField     // sorted by id; empty for rejected definitions
	Accept bool         // expected by the generator (informational; the model decides)
	Holder bool
	Group  string // which generator group produced it
	// for evolution pairs: Sid of the writer schema this reader was derived from, else -1
	Writer int
	// InitDefault panics while Boom is set (user code that fails during a descriptor build)
	Boom bool
}

var Structs []UStruct

// Boom makes the InitDefault of the `boom` group's marked structs panic.
var Boom atomic.Bool

func BySid(sid int) *UStruct { return &Structs[sid] }
