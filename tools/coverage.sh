#!/bin/bash
# coverage.sh [seed]: statement coverage of /repo's packages under the harness streams of all 18
# properties (quick tier).  Informational: shows which code the correspondence never executes.
# Works in a scratch directory and removes it.
set -e
s=${1:-1}
V="$(cd "$(dirname "$0")/.." && pwd)"
W=$(mktemp -d /tmp/verif-cov-XXXX)
trap 'rm -rf "$W"' EXIT
export GOFLAGS=-mod=mod GOPROXY=off GOSUMDB=off GOTOOLCHAIN=local
cp -r "$V/harness" "$W/h"; mkdir "$W/cov"; cd "$W/h"; cp /repo/go.sum .
go run ./cmd/gentypes -seed $s -out . -nrand 40 -depth 3 >/dev/null
go build -cover -coverpkg=github.com/cloudwego/frugal/... -tags verif -o hbin_cov ./cmd/harness
for m in C01 C02 C03 C04 C05 C06 C07 C08 C09 C10 C11 C12 C13 C14 C15 C16 C17 C18; do
  GOCOVERDIR="$W/cov" ./hbin_cov -mode $m -seed $s -tier quick -out "$W/tr.txt" -cur "$W/cur.txt" >/dev/null 2>&1 || echo "mode $m rc=$?"
done
go tool covdata percent -i="$W/cov" | grep -v verifharness
go tool covdata textfmt -i="$W/cov" -o "$W/cov.txt"
echo "uncovered blocks (file:start,end statements):"
grep -v verifharness "$W/cov.txt" | awk '$NF==0' | sed 's#github.com/cloudwego/frugal/##' | grep -v "verif_hooks" | sort -t: -k1,1 -k2,2n
