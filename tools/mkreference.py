#!/usr/bin/env python3
"""mkreference.py — snapshot the params of the UNCHANGED tree as lean/Frugal/Reference.lean.
Run by hand (never by a check) after `tools/extract` on a clean /repo whenever the Params structure
or the unchanged tree's tables change; the result is committed.  The driver's `--ref` mode uses it
to search for concrete failing inputs when a regenerated table no longer satisfies `Params.valid`:
the implementation is then compared with the model under the reference tables."""
import re, sys, os
V = os.path.dirname(os.path.dirname(os.path.abspath(__file__)))
src = open(os.path.join(V, "lean/Frugal/Generated.lean")).read()
a = src.index("def params : Params := {")
b = src.index("def facts : Facts := {")
body = src[a:b].rstrip()
out = '''/-
  Reference.lean — the `Params` of the unchanged tree, committed (tools/mkreference.py).  Used only by
  the driver's `--ref` mode to look for concrete failing inputs after a regenerated table has stopped
  satisfying `Params.valid`; no theorem about /repo depends on it.
-/
import Frugal.Schema
import Frugal.Valid
namespace Frugal.Reference
open Frugal

''' + body + '''

/-- the reference tables satisfy every side condition of the generic theorems -/
theorem params_valid : params.valid = true := by decide

end Frugal.Reference
'''
open(os.path.join(V, "lean/Frugal/Reference.lean"), "w").write(out)
print("wrote Reference.lean")
