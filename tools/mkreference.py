#!/usr/bin/env python3
"""mkreference.py — snapshot the params of the UNCHANGED tree as lean/Frugal/Reference.lean.
Run by hand (never by a check) after `tools/extract` on a clean /repo whenever the Params structure
or the unchanged tree's tables change; the result is committed.  The driver's `--ref` mode uses it
to search for concrete failing inputs when a regenerated table no longer satisfies `Params.valid`:
the implementation is then compared with the model under the reference tables."""
import re, sys, os
V = os.path.dirname(os.path.dirname(os.path.abspath(__file__)))
src = open(os.path.join(V, "lean/Frugal/Generated.lean")).read()
a = src.index("def params : Params := {")
b = src.index("def facts : Facts := {")
body = src[a:b].rstrip()
out = '''/-
  Reference.lean — the `Params` of the unchanged tree, committed (tools/mkreference.py).  Used only by
  the driver's `--ref` mode to look for concrete failing inputs after a regenerated table has stopped
  satisfying `Params.valid`; no theorem about /repo depends on it.
-/
import Frugal.Schema
import Frugal.Valid
namespace Frugal.Reference
open Frugal

''' + body + '''

/-- the reference tables satisfy every side condition of the generic theorems -/
theorem params_valid : params.valid = true := by decide

end Frugal.Reference
'''
open(os.path.join(V, "lean/Frugal/Reference.lean"), "w").write(out)
print("wrote Reference.lean")

import re as _re
sk = dict(_re.findall(r'  (\w+Skeleton) := "([0-9a-f]+)"', src))
SK = """/-
  Skeleton.lean -- fingerprints of the control structure (guards, switches, loops, returns, call
  sequence) of the Go functions that the hand-written parts of the model were written from and
  validated against, on the unchanged tree; committed (tools/mkreference.py).  Props/Instances.lean
  compares them with the regenerated ones: an edit that adds, drops or reorders a check in one of
  those functions fails the obligation whatever the correspondence run happens to sample.
-/
namespace Frugal.Skeleton
def decoder : String := "%s"
def encoder : String := "%s"
def resolver : String := "%s"
/-- full text (not only control structure) of `structDesc`, `tField`, `tType`, `fromDefsFields`,
    `fromDefsField`, `GetField`, `newTType`: the descriptor tables every codec theorem takes for granted -/
def descTable : String := "%s"
/-- every store into package-level state of `internal/reflect` and `internal/defs` outside `init` functions
    ("pkg/file:func writes var"): the descriptor build under its lock (`createStructDesc`,
    `newStructDescAndPrefetch`, `fetchStructDesc`, `rollbackBuild`, `newTType`), the two table registrations
    that only `init` calls, and the caller-less caching `ResolveFields` under its own lock — nothing on the
    encode / size / decode paths -/
def sharedWrites : List String := %s
/-- full normalised text of every function and package-level declaration of `internal/defs` /
    `internal/reflect` (hooks aside) that none of the fingerprints above, no table translation and no
    protocol fact looks at: the small predicates and helpers the model mirrors by hand -/
def residualDefs : String := "%s"
def residualReflect : String := "%s"
end Frugal.Skeleton
""" % (sk["decoderSkeleton"], sk["encoderSkeleton"], sk["resolverSkeleton"], sk["descTableSkeleton"],
       _re.search(r"  sharedWriteSiteList := (\[.*\])", src).group(1), sk["residualDefsSkeleton"], sk["residualReflectSkeleton"])
open(os.path.join(V, "lean/Frugal/Skeleton.lean"), "w").write(SK)
print("wrote Skeleton.lean")
