#!/usr/bin/env python3
"""mkobligations.py — rewrite lean/obligations.json from the theorem names in lean/Frugal/Props/Cnn.lean."""
import json, os, re
V = os.path.dirname(os.path.dirname(os.path.abspath(__file__)))
ob = {}
for i in range(1, 19):
    c = "C%02d" % i
    src = open(os.path.join(V, "lean/Frugal/Props", c + ".lean")).read()
    ob[c] = {"module": "Frugal.Props." + c,
             "theorems": ["Frugal.%s.%s" % (c, n) for n in re.findall(r"^theorem (\w+)", src, re.M)]}
json.dump(ob, open(os.path.join(V, "lean/obligations.json"), "w"), indent=1)
print({c: len(v["theorems"]) for c, v in ob.items()})
