#!/bin/bash
# allquick.sh [seed]: every property's quick check on the current /repo; prints the lines that are not OK
cd "$(dirname "$0")/.."
s=${1:-1}
bad=0
for c in C01 C02 C03 C04 C05 C06 C07 C08 C09 C10 C11 C12 C13 C14 C15 C16 C17 C18; do
  l=$(VERIF_SEED=$s ./check $c quick | tail -1)
  case "$l" in OK*) ;; *) echo "$l"; bad=1;; esac
done
[ $bad = 0 ] && echo "all 18 OK (seed $s)"
exit $bad
