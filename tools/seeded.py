#!/usr/bin/env python3
"""seeded.py [ids...] — apply each seeded mutation to /repo, run the check of the property it breaks
(quick tier; optionally more properties with --also), record the outcome in seeded/<id>/result.json,
restore /repo.  Never commits anything in /repo."""
import json, os, re, subprocess, sys, time
VERIF = os.path.dirname(os.path.dirname(os.path.abspath(__file__)))
REPO = "/repo"
REV = {"D10": "C07", "D11": "C05", "D1": "C05", "D2": "C13", "D3": "C04", "D4": "C07", "D5": "C02", "D6": "C09", "D7": "C13", "D8": "C04", "D9": "C13", "D12": "C06", "D13": "C04", "D14": "C11", "D15": "C09", "D16": "C03", "D18": "C12", "D19": "C13", "D20": "C13"}

def prop_of(d):
    mp = os.path.join(VERIF, "seeded", d, "meta.json")
    if os.path.exists(mp):
        try:
            return json.load(open(mp))["property"]
        except Exception:
            pass
    m = re.match(r"revert-(D\d+)", d)
    if m:
        return REV[m.group(1)]
    return d[:3]

def main():
    args = [a for a in sys.argv[1:] if not a.startswith("--")]
    also = []
    for a in sys.argv[1:]:
        if a.startswith("--also="):
            also = a.split("=")[1].split(",")
    tier = "thorough" if "--thorough" in sys.argv else "quick"
    ids = args or sorted(os.listdir(os.path.join(VERIF, "seeded")))
    for d in ids:
        patch = os.path.join(VERIF, "seeded", d, "patch.diff")
        if not os.path.exists(patch):
            continue
        assert subprocess.run(["git", "-C", REPO, "status", "--porcelain"], capture_output=True, text=True).stdout.strip() == "", "/repo not clean"
        r = subprocess.run(["git", "-C", REPO, "apply", patch], capture_output=True, text=True)
        if r.returncode != 0:
            print(d, "PATCH DOES NOT APPLY", r.stderr[:200]); continue
        res = {"id": d, "tier": tier, "checks": {}}
        try:
            for p in [prop_of(d)] + also:
                t0 = time.time()
                c = subprocess.run([os.path.join(VERIF, "check"), p, tier], cwd=VERIF, capture_output=True, text=True)
                lines = [l for l in c.stdout.split("\n") if l.startswith(("VIOLATION", "OK ", "KNOWN-FINDING", "OBLIGATION-FAILED", "FOUND"))]
                res["checks"][p] = {"rc": c.returncode, "s": round(time.time() - t0, 1), "lines": [l[:400] for l in lines[:6]]}
                print(d, p, "rc=%d" % c.returncode, (lines[-1] if lines else c.stdout[-200:] + c.stderr[-200:])[:160], flush=True)
        finally:
            subprocess.run(["git", "-C", REPO, "checkout", "--", "."])
            subprocess.run(["git", "-C", REPO, "clean", "-fdq"])
        res["detected"] = any(v["rc"] == 1 for v in res["checks"].values())
        json.dump(res, open(os.path.join(VERIF, "seeded", d, "result.json"), "w"), indent=1)
    # bring the regenerated model back in line with the restored tree
    env = dict(os.environ, GOFLAGS="-mod=mod", GOPROXY="off", GOSUMDB="off", GOTOOLCHAIN="local")
    subprocess.run(["go", "run", ".", "-repo", REPO, "-out", os.path.join(VERIF, "lean/Frugal/Generated.lean")],
                   cwd=os.path.join(VERIF, "tools/extract"), env=env)
    subprocess.run(["lake", "build", "driver"], cwd=os.path.join(VERIF, "lean"), capture_output=True)

if __name__ == "__main__":
    main()
