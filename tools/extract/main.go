// extract: /repo sources -> lean/Frugal/Generated.lean (constants, dispatch tables with
// per-routine writer programs, structural facts).  go/ast only; nothing from /repo is executed
// (the escape-analysis facts come from `go build -gcflags=-m`).  Deterministic: identical
// sources give a byte-identical file.
package main

import (
	"bytes"
	"flag"
	"fmt"
	"go/ast"
	"go/parser"
	"go/printer"
	"crypto/sha256"
	"go/token"
	"os"
	"os/exec"
	"path/filepath"
	"regexp"
	"sort"
	"strconv"
	"strings"
)

var fset = token.NewFileSet()

type pkgFiles map[string]*ast.File

func parseDir(dir string) pkgFiles {
	out := pkgFiles{}
	ents, err := os.ReadDir(dir)
	must(err)
	for _, e := range ents {
		n := e.Name()
		if !strings.HasSuffix(n, ".go") || strings.HasSuffix(n, "_test.go") || n == "verif_hooks.go" {
			continue
		}
		f, err := parser.ParseFile(fset, filepath.Join(dir, n), nil, parser.ParseComments)
		must(err)
		out[n] = f
	}
	return out
}

func (p pkgFiles) sorted() []*ast.File {
	var names []string
	for n := range p {
		names = append(names, n)
	}
	sort.Strings(names)
	var out []*ast.File
	for _, n := range names {
		out = append(out, p[n])
	}
	return out
}

func must(err error) {
	if err != nil {
		fmt.Fprintln(os.Stderr, "extract:", err)
		os.Exit(1)
	}
}

func src(n ast.Node) string {
	var b bytes.Buffer
	printer.Fprint(&b, fset, n)
	return b.String()
}

// ---- constant evaluation ----

type consts map[string]int64

func (c consts) eval(e ast.Expr) (int64, bool) {
	switch x := e.(type) {
	case *ast.BasicLit:
		if x.Kind == token.INT {
			v, err := strconv.ParseInt(x.Value, 0, 64)
			return v, err == nil
		}
	case *ast.Ident:
		v, ok := c[x.Name]
		return v, ok
	case *ast.ParenExpr:
		return c.eval(x.X)
	case *ast.BinaryExpr:
		a, ok1 := c.eval(x.X)
		b, ok2 := c.eval(x.Y)
		if !ok1 || !ok2 {
			return 0, false
		}
		switch x.Op {
		case token.ADD:
			return a + b, true
		case token.SUB:
			return a - b, true
		case token.MUL:
			return a * b, true
		case token.QUO:
			if b != 0 {
				return a / b, true
			}
		case token.SHL:
			return a << uint(b), true
		}
	case *ast.CallExpr: // conversions like ttype(3)
		if len(x.Args) == 1 {
			return c.eval(x.Args[0])
		}
	}
	return 0, false
}

func collectConsts(files pkgFiles) consts {
	c := consts{}
	for pass := 0; pass < 3; pass++ {
		for _, f := range files.sorted() {
			for _, d := range f.Decls {
				gd, ok := d.(*ast.GenDecl)
				if !ok || gd.Tok != token.CONST {
					continue
				}
				for _, s := range gd.Specs {
					vs := s.(*ast.ValueSpec)
					for i, n := range vs.Names {
						if i < len(vs.Values) {
							if v, ok := c.eval(vs.Values[i]); ok {
								c[n.Name] = v
							}
						}
					}
				}
			}
		}
	}
	return c
}

func findVar(files pkgFiles, name string) ast.Expr {
	for _, f := range files.sorted() {
		for _, d := range f.Decls {
			gd, ok := d.(*ast.GenDecl)
			if !ok || gd.Tok != token.VAR {
				continue
			}
			for _, s := range gd.Specs {
				vs := s.(*ast.ValueSpec)
				for i, n := range vs.Names {
					if n.Name == name && i < len(vs.Values) {
						return vs.Values[i]
					}
				}
			}
		}
	}
	return nil
}

func findFunc(files pkgFiles, name string) *ast.FuncDecl {
	for _, f := range files.sorted() {
		for _, d := range f.Decls {
			if fd, ok := d.(*ast.FuncDecl); ok && fd.Name.Name == name && fd.Recv == nil {
				return fd
			}
		}
	}
	return nil
}

func findMethod(files pkgFiles, recv, name string) *ast.FuncDecl {
	for _, f := range files.sorted() {
		for _, d := range f.Decls {
			fd, ok := d.(*ast.FuncDecl)
			if !ok || fd.Name.Name != name || fd.Recv == nil || len(fd.Recv.List) == 0 {
				continue
			}
			if strings.Contains(src(fd.Recv.List[0].Type), recv) {
				return fd
			}
		}
	}
	return nil
}

// keyed composite literal  [256]T{ tA: v, ... }  ->  name -> value source
func keyedLit(e ast.Expr) [][2]string {
	cl, ok := e.(*ast.CompositeLit)
	if !ok {
		return nil
	}
	var out [][2]string
	for _, el := range cl.Elts {
		kv, ok := el.(*ast.KeyValueExpr)
		if !ok {
			continue
		}
		out = append(out, [2]string{src(kv.Key), src(kv.Value)})
	}
	return out
}

// ---- internal type tags ----

var ttName = map[string]string{
	"tBOOL": ".bool", "tBYTE": ".byte", "tI08": ".byte", "tDOUBLE": ".double", "tI16": ".i16", "tI32": ".i32",
	"tI64": ".i64", "tSTRING": ".string", "tSTRUCT": ".strct", "tMAP": ".map", "tSET": ".set", "tLIST": ".list",
	"tENUM": ".enum",
}

func tt(name string) string {
	if v, ok := ttName[name]; ok {
		return v
	}
	return ".bool /- UNKNOWN " + name + " -/"
}

// ---- writer operations ----

// classify one statement of a fast-path loop body that appends to b; which = "k" | "v" | "elem"
func classifyWrite(stmts []ast.Stmt, vars []string) string {
	// returns WOp for the statements that mention one of vars
	var rel []string
	viaS := false
	for _, s := range stmts {
		t := src(s)
		hit := false
		for _, v := range vars {
			if regexp.MustCompile(`\b` + v + `\b`).MatchString(t) {
				hit = true
				if regexp.MustCompile(`^s = \*\(\(\*string\)\(` + v + `\)\)$`).MatchString(strings.Join(strings.Fields(t), " ")) {
					viaS = true
				}
				break
			}
		}
		if !hit && viaS && regexp.MustCompile(`\bs\b`).MatchString(t) {
			hit = true
		}
		if hit {
			rel = append(rel, strings.Join(strings.Fields(t), " "))
		}
	}
	j := strings.Join(rel, " ; ")
	v := "(" + strings.Join(vars, "|") + ")"
	m := func(p string) bool { return regexp.MustCompile("^" + p + "$").MatchString(j) }
	deref := func(ty string) string { return `\*\(\(\*` + ty + `\)\(` + v + `\)\)` }
	switch {
	case m(`b = appendMapBool\(b, ` + v + `\)`):
		return ".boolNorm"
	case m(`b = append\(b, ` + v + `\)`), m(`b = append\(b, ` + deref("byte") + `\)`):
		return ".byte"
	case m(`b = appendUint16\(b, ` + v + `\)`), m(`b = appendUint16\(b, ` + deref("uint16") + `\)`):
		return ".u16"
	case m(`b = appendUint32\(b, ` + v + `\)`), m(`b = appendUint32\(b, ` + deref("uint32") + `\)`):
		return ".u32"
	case m(`b = appendUint64\(b, ` + v + `\)`), m(`b = appendUint64\(b, ` + deref("uint64") + `\)`):
		return ".u64"
	case m(`b = appendUint32\(b, uint32\(` + v + `\)\)`), m(`b = appendUint32\(b, uint32\(` + deref("int64") + `\)\)`):
		return ".enum32"
	case m(`b = appendUint32\(b, uint32\(len\(` + v + `\)\)\) ; b = append\(b, ` + v + `\.\.\.\)`):
		return ".str"
	case m(`s = ` + deref("string") + ` ; b = appendUint32\(b, uint32\(len\(s\)\)\) ; b = append\(b, s\.\.\.\)`):
		return ".str"
	case m(`if t\.(K|V)\.IsPointer \{ b, err = t\.(K|V)\.AppendFunc\(t\.(K|V), b, \*\(\*unsafe\.Pointer\)\(` + v + `\)\) \} else \{ b, err = t\.(K|V)\.AppendFunc\(t\.(K|V), b, ` + v + `\) \}`):
		return ".dispatch"
	case m(`if t\.IsPointer \{ b, err = t\.AppendFunc\(t, b, \*\(\*unsafe\.Pointer\)\(` + v + `\)\) \} else \{ b, err = t\.AppendFunc\(t, b, ` + v + `\) \}`):
		return ".dispatch"
	case m(`b, err = appendAny\(t(\.K|\.V)?, b, ` + v + `\)`):
		return ".any"
	}
	return ".unknown"
}

var castName = map[string]string{"bool": ".bool", "byte": ".u8", "uint8": ".u8", "uint16": ".u16", "uint32": ".u32",
	"uint64": ".u64", "int64": ".i64", "string": ".str"}

type routine struct{ castK, castV, kw, vw string }

func classifyMapFunc(fd *ast.FuncDecl) routine {
	r := routine{".unknown", ".unknown", ".unknown", ".unknown"}
	if fd == nil || fd.Body == nil {
		return r
	}
	headerOK := false
	tailOK := false
	for _, s := range fd.Body.List {
		t := strings.Join(strings.Fields(src(s)), " ")
		if t == "b, n := appendMapHeader(t, b, p)" {
			headerOK = true
		}
		if t == "return b, checkMapN(n)" {
			tailOK = true
		}
		switch x := s.(type) {
		case *ast.RangeStmt:
			xs := strings.Join(strings.Fields(src(x.X)), "")
			m := regexp.MustCompile(`^\*\(\*map\[(\w+)\](\w+)\)\(p\)$`).FindStringSubmatch(xs)
			if m == nil || x.Key == nil || x.Value == nil {
				continue
			}
			r.castK, r.castV = castName[m[1]], castName[m[2]]
			if r.castK == "" {
				r.castK = ".unknown"
			}
			if r.castV == "" {
				r.castV = ".unknown"
			}
			body := dropDecrement(x.Body.List)
			r.kw = classifyWrite(body, []string{src(x.Key)})
			r.vw = classifyWrite(body, []string{src(x.Value)})
		case *ast.ForStmt:
			// for kp, vp := it.Next(); kp != nil; kp, vp = it.Next()
			hdr := strings.Join(strings.Fields(src(x.Init)+";"+src(x.Cond)+";"+src(x.Post)), " ")
			if hdr != "kp, vp := it.Next();kp != nil;kp, vp = it.Next()" {
				continue
			}
			r.castK, r.castV = ".iter", ".iter"
			body := dropDecrement(x.Body.List)
			// split: statements up to the first mention of vp belong to the key
			var ks, vsx []ast.Stmt
			seenV := false
			for _, bs := range body {
				txt := src(bs)
				if regexp.MustCompile(`\bvp\b`).MatchString(txt) || regexp.MustCompile(`\bs = \*\(\(\*string\)\(vp`).MatchString(txt) {
					seenV = true
				}
				if isErrCheck(bs) {
					continue
				}
				if seenV || (mentionsOnlyS(txt) && len(vsx) > 0) {
					vsx = append(vsx, bs)
				} else {
					ks = append(ks, bs)
				}
			}
			// string via temporary s: statements using s follow their loader
			r.kw = classifyWrite(attachS(ks, "kp"), []string{"kp"})
			r.vw = classifyWrite(attachS(vsx, "vp"), []string{"vp"})
		}
	}
	if !headerOK || !tailOK {
		return routine{".unknown", ".unknown", ".unknown", ".unknown"}
	}
	return r
}

func mentionsOnlyS(t string) bool { return regexp.MustCompile(`\bs\b`).MatchString(t) }

// for "s = *((*string)(kp)); b = appendUint32(b, uint32(len(s))); b = append(b, s...)" keep all three
func attachS(stmts []ast.Stmt, v string) []ast.Stmt { return stmts }

func isErrCheck(s ast.Stmt) bool {
	t := strings.Join(strings.Fields(src(s)), " ")
	return t == "if err != nil { return b, err }"
}

func dropDecrement(stmts []ast.Stmt) []ast.Stmt {
	var out []ast.Stmt
	for _, s := range stmts {
		if strings.Join(strings.Fields(src(s)), "") == "n--" {
			continue
		}
		out = append(out, s)
	}
	return out
}

func classifyListFunc(fd *ast.FuncDecl) string {
	if fd == nil || fd.Body == nil {
		return ".unknown"
	}
	hdr := false
	op := ".unknown"
	for _, s := range fd.Body.List {
		t := strings.Join(strings.Fields(src(s)), " ")
		if t == "b, n, vp := appendListHeader(t, b, p)" {
			hdr = true
		}
		if fs, ok := s.(*ast.ForStmt); ok {
			h := strings.Join(strings.Fields(src(fs.Init)+";"+src(fs.Cond)+";"+src(fs.Post)), " ")
			if h != "i := uint32(0);i < n;i++" {
				return ".unknown"
			}
			var body []ast.Stmt
			strideOK := false
			for _, bs := range fs.Body.List {
				bt := strings.Join(strings.Fields(src(bs)), " ")
				if bt == "if i != 0 { vp = unsafe.Add(vp, t.Size) }" {
					strideOK = true
					continue
				}
				if isErrCheck(bs) {
					continue
				}
				body = append(body, bs)
			}
			if !strideOK {
				return ".unknown"
			}
			op = classifyWrite(body, []string{"vp"})
		}
	}
	if !hdr {
		return ".unknown"
	}
	return op
}

func registrations(fd *ast.FuncDecl, fn string) [][]string {
	var out [][]string
	if fd == nil {
		return nil
	}
	ast.Inspect(fd.Body, func(n ast.Node) bool {
		ce, ok := n.(*ast.CallExpr)
		if !ok {
			return true
		}
		if id, ok := ce.Fun.(*ast.Ident); ok && id.Name == fn {
			var args []string
			for _, a := range ce.Args {
				args = append(args, src(a))
			}
			out = append(out, args)
		}
		return true
	})
	return out
}

func contains(n ast.Node, pat string) bool {
	return n != nil && regexp.MustCompile(pat).MatchString(strings.Join(strings.Fields(src(n)), " "))
}

// ---- body classes (legacy controls) ----

func bodyClass(fd *ast.FuncDecl) string {
	if fd == nil || fd.Body == nil {
		return ".other"
	}
	l := fd.Body.List
	if len(l) == 0 {
		return ".noop"
	}
	if len(l) == 1 {
		if rs, ok := l[0].(*ast.ReturnStmt); ok && len(rs.Results) == 1 {
			r := rs.Results[0]
			if id, ok := r.(*ast.Ident); ok {
				if id.Name == "nil" {
					return ".returnsNil"
				}
				if fd.Type.Params != nil {
					for _, p := range fd.Type.Params.List {
						for _, n := range p.Names {
							if n.Name == id.Name {
								return ".returnsArg"
							}
						}
					}
				}
			}
			if fl, ok := r.(*ast.FuncLit); ok && len(fl.Body.List) == 0 {
				return ".returnsEmptyClosure"
			}
			if cl, ok := r.(*ast.CompositeLit); ok && len(cl.Elts) == 0 {
				return ".returnsZero"
			}
		}
	}
	return ".other"
}

var skeletonText string

func main() {
	repo := flag.String("repo", "/repo", "repository root")
	out := flag.String("out", "", "output file (Generated.lean)")
	gopkg := flag.String("gopkg", "", "gopkg module directory (default: from go list)")
	flag.Parse()

	rf := parseDir(filepath.Join(*repo, "internal/reflect"))
	df := parseDir(filepath.Join(*repo, "internal/defs"))
	root := parseDir(*repo)
	optsf := parseDir(filepath.Join(*repo, "internal/opts"))
	dbgf := parseDir(filepath.Join(*repo, "debug"))
	_ = df
	c := collectConsts(rf)

	if *gopkg == "" {
		cmd := exec.Command("go", "list", "-m", "-f", "{{.Dir}}", "github.com/cloudwego/gopkg")
		cmd.Dir = *repo
		o, err := cmd.Output()
		must(err)
		*gopkg = strings.TrimSpace(string(o))
	}
	tf := parseDir(filepath.Join(*gopkg, "protocol/thrift"))
	tc := collectConsts(tf)

	var g strings.Builder
	w := func(f string, a ...interface{}) { fmt.Fprintf(&g, f, a...) }
	w("/-\n  Generated.lean — REGENERATED on every run by tools/extract from /repo's current sources.\n  Do not edit by hand.\n-/\nimport Frugal.Schema\nimport Frugal.Facts\nnamespace Frugal.Generated\nopen Frugal\n\n")

	// tables keyed by internal tags
	pairs := func(varName string, files pkgFiles, cs consts) string {
		var parts []string
		for _, kv := range keyedLit(findVar(files, varName)) {
			v, ok := cs.eval(mustExpr(kv[1]))
			if !ok {
				v = -1
			}
			parts = append(parts, fmt.Sprintf("(%s, %d)", tt(kv[0]), v))
		}
		return "[" + strings.Join(parts, ", ") + "]"
	}
	boolKeys := func(varName string) string {
		var parts []string
		for _, kv := range keyedLit(findVar(rf, varName)) {
			if kv[1] == "true" {
				parts = append(parts, tt(kv[0]))
			}
		}
		return "[" + strings.Join(parts, ", ") + "]"
	}
	wirePairs := func(varName string, files pkgFiles, cs consts) string {
		var parts []string
		for _, kv := range keyedLit(findVar(files, varName)) {
			k, ok1 := cs.eval(mustExpr(kv[0]))
			v, ok2 := cs.eval(mustExpr(kv[1]))
			if !ok1 || !ok2 {
				k, v = 255, 0
			}
			parts = append(parts, fmt.Sprintf("(%d, %d)", k, v))
		}
		return "[" + strings.Join(parts, ", ") + "]"
	}

	// list table
	var listEntries []string
	for _, r := range registrations(findFunc(rf, "init_list"), "registerListAppendFunc") {
		_ = r
	}
	for _, f := range rf.sorted() {
		for _, d := range f.Decls {
			fd, ok := d.(*ast.FuncDecl)
			if !ok || fd.Name.Name != "init" {
				continue
			}
			for _, r := range registrations(fd, "registerListAppendFunc") {
				listEntries = append(listEntries, fmt.Sprintf("(%s, %s)", tt(r[0]), classifyListFunc(findFunc(rf, r[1]))))
			}
		}
	}
	listDefault := classifyListFunc(findFunc(rf, "appendListAny"))
	if contains(findFunc(rf, "updateListAppendFunc"), `t\.AppendFunc = appendListAny`) == false {
		listDefault = ".unknown"
	}

	var mapEntries []string
	for _, f := range rf.sorted() {
		for _, d := range f.Decls {
			fd, ok := d.(*ast.FuncDecl)
			if !ok || fd.Name.Name != "init" {
				continue
			}
			for _, r := range registrations(fd, "registerMapAppendFunc") {
				rt := classifyMapFunc(findFunc(rf, r[2]))
				mapEntries = append(mapEntries, fmt.Sprintf("((%s, %s), ⟨%s, %s, %s, %s⟩)", tt(r[0]), tt(r[1]), rt.castK, rt.castV, rt.kw, rt.vw))
			}
		}
	}
	md := classifyMapFunc(findFunc(rf, "appendMapAnyAny"))
	upd := findFunc(rf, "updateMapAppendFunc")
	binaryGuard := contains(upd, `if ok && t\.V\.Tag == defs\.T_binary \{[^}]*ok = false \}`)
	lookupOK := contains(upd, `mapAppendFuncs\[struct\{ k, v ttype \}\{k: t\.K\.T, v: t\.V\.T\}\]`)
	if !lookupOK || !contains(upd, `t\.AppendFunc = appendMapAnyAny`) {
		md = routine{".unknown", ".unknown", ".unknown", ".unknown"}
	}
	if !contains(findFunc(rf, "updateListAppendFunc"), `listAppendFuncs\[t\.V\.T\]`) {
		listDefault = ".unknown"
	}

	// decoder facts
	dec := findMethod(rf, "tDecoder", "Decode")
	dty := findMethod(rf, "tDecoder", "decodeType")
	directDiv := int64(0)
	if m := findMethod(rf, "tDecoder", "Malloc"); m != nil {
		ast.Inspect(m, func(n ast.Node) bool {
			if be, ok := n.(*ast.BinaryExpr); ok && be.Op == token.QUO && src(be.X) == "defaultDecoderMemSize" {
				directDiv, _ = c.eval(be.Y)
			}
			return true
		})
		if !contains(m, `if n > defaultDecoderMemSize/\d+ \|\| abiType != 0 \{ return mallocgc\(uintptr\(n\), abiType, abiType != 0\) \}`) {
			directDiv = 0
		}
	}
	// skip wrapper: every call of thrift.Binary.Skip sits in a function with a deferred recover
	skipRecovers := true
	nSkipCalls := 0
	for _, f := range rf.sorted() {
		for _, d := range f.Decls {
			fd, ok := d.(*ast.FuncDecl)
			if !ok || fd.Body == nil {
				continue
			}
			if contains(fd.Body, `thrift\.Binary\.Skip\(`) {
				nSkipCalls++
				if !contains(fd.Body, `defer func\(\) \{ if r := recover\(\); r != nil \{`) {
					skipRecovers = false
				}
			}
		}
	}
	if nSkipCalls == 0 {
		skipRecovers = false
	}
	// bitset
	bsWords, bsShift, bsMask := int64(0), int64(-1), int64(-1)
	for _, f := range rf.sorted() {
		ast.Inspect(f, func(n ast.Node) bool {
			ts, ok := n.(*ast.TypeSpec)
			if ok && ts.Name.Name == "bitset" {
				ast.Inspect(ts, func(m ast.Node) bool {
					if at, ok := m.(*ast.ArrayType); ok && at.Len != nil {
						bsWords, _ = c.eval(at.Len)
					}
					return true
				})
			}
			return true
		})
	}
	same := true
	for _, mn := range []string{"set", "unset", "test"} {
		fd := findMethod(rf, "bitset", mn)
		if fd == nil {
			same = false
			continue
		}
		m := regexp.MustCompile(`x, y := i>>(\d+), i&(\d+)`).FindStringSubmatch(strings.Join(strings.Fields(src(fd)), " "))
		if m == nil {
			same = false
			continue
		}
		sh, _ := strconv.ParseInt(m[1], 10, 64)
		mk, _ := strconv.ParseInt(m[2], 10, 64)
		if bsShift == -1 {
			bsShift, bsMask = sh, mk
		} else if bsShift != sh || bsMask != mk {
			same = false
		}
	}
	bodyOK := contains(findMethod(rf, "bitset", "set"), `s\.data\[x\] \|= 1 << y`) &&
		contains(findMethod(rf, "bitset", "unset"), `s\.data\[x\] &\^= \(1 << y\)`) &&
		contains(findMethod(rf, "bitset", "test"), `return \(s\.data\[x\] & \(1 << y\)\) != 0`)
	if !same || !bodyOK {
		bsShift, bsMask = 0, 0
	}

	w("def params : Params := {\n")
	w("  typeToSize := %s\n", pairs("typeToSize", rf, c))
	w("  simpleTypes := %s\n", boolKeys("simpleTypes"))
	w("  containerTypes := %s\n", boolKeys("containerTypes"))
	w("  fieldHeaderLen := %d\n  mapHeaderLen := %d\n  listHeaderLen := %d\n  strHeaderLen := %d\n", c["fieldHeaderLen"], c["mapHeaderLen"], c["listHeaderLen"], c["strHeaderLen"])
	w("  maxDepth := %d\n", c["maxDepthLimit"])
	w("  minWire := %s\n", wirePairs("minWireSize", rf, c))
	w("  skipDepth := %d\n", tc["defaultRecursionDepth"])
	w("  skipFixed := %s\n", wirePairs("typeToSize", tf, tc))
	w("  skipRecovers := %v\n", skipRecovers)
	w("  blockSize := %d\n  directDiv := %d\n", c["defaultDecoderMemSize"], directDiv)
	w("  bsWords := %d\n  bsShift := %d\n  bsMask := %d\n", bsWords, bsShift, bsMask)
	w("  listTable := [\n    %s]\n", strings.Join(listEntries, ",\n    "))
	w("  listDefault := %s\n", listDefault)
	w("  mapTable := [\n    %s]\n", strings.Join(mapEntries, ",\n    "))
	w("  mapDefault := ⟨%s, %s, %s, %s⟩\n", md.castK, md.castV, md.kw, md.vw)
	w("  mapBinaryGuard := %v\n", binaryGuard)
	w("  mapDoubleKeyGuard := %v\n", contains(upd, `if ok && t\.K\.T == tDOUBLE \{[^}]*ok = false \}`))
	// decoder.go: the string decoders decide []byte-vs-string with a test that looks through a
	// pointer node (optional `*[]byte` fields carry T_pointer on the node and T_binary on its element)
	ibt := findFunc(rf, "isBinaryType")
	dsn := findFunc(rf, "decodeStringNoCopy")
	dty0 := findMethod(rf, "tDecoder", "decodeType")
	throughPtr := ibt != nil && contains(ibt, `return t\.Tag == defs\.T_binary \|\| \(t\.IsPointer && t\.V\.Tag == defs\.T_binary\)`) &&
		dsn != nil && dty0 != nil &&
		!contains(dsn, `t\.Tag == defs\.T_binary`) && !contains(dty0, `t\.Tag == defs\.T_binary`) &&
		strings.Count(src(dsn), "isBinaryType(t)") == 2 && strings.Count(src(dty0), "isBinaryType(t)") == 2
	w("  binarySeesThroughPtr := %v\n}\n\n", throughPtr)

	// ---- facts ----
	w("def facts : Facts := {\n")
	// C17
	w("  pretouch := %s\n", bodyClass(findFunc(root, "Pretouch")))
	w("  noJIT := %s\n", bodyClass(findFunc(root, "NoJIT")))
	w("  withOptions := [%s, %s, %s]\n", bodyClass(findFunc(root, "WithMaxInlineDepth")), bodyClass(findFunc(root, "WithMaxInlineILSize")), bodyClass(findFunc(root, "WithMaxPretouchDepth")))
	w("  setters := [%s, %s]\n", bodyClass(findFunc(root, "SetMaxInlineDepth")), bodyClass(findFunc(root, "SetMaxInlineILSize")))
	w("  getStats := %s\n", bodyClass(findFunc(dbgf, "GetStats")))
	// references to opts.* outside internal/opts (selector expressions on the package `opts`)
	optsRefs := 0
	countOpts := func(files pkgFiles) {
		for _, f := range files.sorted() {
			ast.Inspect(f, func(n ast.Node) bool {
				if se, ok := n.(*ast.SelectorExpr); ok {
					if id, ok := se.X.(*ast.Ident); ok && id.Name == "opts" && se.Sel.Name != "Options" {
						optsRefs++
					}
				}
				return true
			})
		}
	}
	countOpts(root)
	countOpts(rf)
	countOpts(df)
	countOpts(dbgf)
	w("  optsRefsOutsideOpts := %d\n", optsRefs)
	// importing internal/opts from the codec packages
	optsImports := 0
	for _, files := range []pkgFiles{rf, df} {
		for _, f := range files.sorted() {
			for _, im := range f.Imports {
				if strings.Contains(im.Path.Value, "internal/opts") {
					optsImports++
				}
			}
		}
	}
	w("  optsImportsInCodec := %d\n", optsImports)
	pod := findFunc(optsf, "parseOrDefault")
	w("  envParseBase0 := %v\n", contains(pod, `strconv\.ParseUint\(env, 0, 64\)`))
	w("  envEmptyIsDefault := %v\n", contains(pod, `if env := os\.Getenv\(key\); env == "" \{ return def \}`))
	w("  envTooSmallIsLeMin := %v\n", contains(pod, `ret := int\(val\); ret <= min`))
	// C04 / C16: EncodeObject caps the slice at len(buf), tests the result against len(buf)
	eo := findFunc(root, "EncodeObject")
	w("  encodeCapsAtLen := %v\n", contains(eo, `ret, err := reflect\.Append\(buf\[:0:len\(buf\)\], val\)`))
	w("  encodeChecksLen := %v\n", contains(eo, `if len\(ret\) > len\(buf\) \{ return 0, fmt\.Errorf\(`) && contains(eo, `return len\(ret\), err \}$`))
	// C15
	decrements := true
	nRec := 0
	for _, fd := range []*ast.FuncDecl{dec, dty} {
		if fd == nil {
			decrements = false
			continue
		}
		ast.Inspect(fd.Body, func(n ast.Node) bool {
			ce, ok := n.(*ast.CallExpr)
			if !ok {
				return true
			}
			fn := src(ce.Fun)
			if fn == "d.decodeType" || fn == "d.Decode" {
				nRec++
				last := strings.Join(strings.Fields(src(ce.Args[len(ce.Args)-1])), "")
				if last != "maxdepth-1" {
					decrements = false
				}
			}
			return true
		})
	}
	// C05: in decodeType every allocation whose size depends on a length / count read from the wire
	// (d.Malloc(l…), reflect.MakeMapWithSize(t.RT, l)) comes, inside its case clause, after the
	// statement that rejects a length / count exceeding what the remaining input can hold
	allocOK, allocSites := dty != nil, 0
	if dty != nil {
		ast.Inspect(dty.Body, func(n ast.Node) bool {
			cc, ok := n.(*ast.CaseClause)
			if !ok {
				return true
			}
			var checkEnd token.Pos
			for _, st := range cc.Body {
				if ifs, ok := st.(*ast.IfStmt); ok && checkEnd == 0 &&
					contains(ifs.Body, `return \w+, newSizeExceedsBufferException\(l, `) &&
					contains(ifs.Cond, `^l > `) {
					checkEnd = ifs.End()
				}
			}
			for _, st := range cc.Body {
				ast.Inspect(st, func(m ast.Node) bool {
					ce, ok := m.(*ast.CallExpr)
					if !ok {
						return true
					}
					t := strings.Join(strings.Fields(src(ce)), "")
					if strings.HasPrefix(t, "d.Malloc(l") || strings.HasPrefix(t, "reflect.MakeMapWithSize(t.RT,l") {
						allocSites++
						if checkEnd == 0 || ce.Pos() < checkEnd {
							allocOK = false
						}
					}
					return true
				})
			}
			return false
		})
	}
	// C06: every decoder allocation passes the size, alignment and GC type of ONE type node
	// (`d.Malloc([l*]X.Size, X.Align, X.MallocAbiType)`), the only exception being string / binary
	// bytes (`d.Malloc(l, 1, 0)`, pointer-free); and newTType sets MallocAbiType for exactly the
	// kinds that can hold pointers.
	typedAllocOK, typedAllocSites := true, 0
	for _, fd := range []*ast.FuncDecl{dec, dty, findMethod(rf, "tDecoder", "mallocIfPointer")} {
		if fd == nil {
			typedAllocOK = false
			continue
		}
		ast.Inspect(fd.Body, func(n ast.Node) bool {
			ce, ok := n.(*ast.CallExpr)
			if !ok || src(ce.Fun) != "d.Malloc" {
				return true
			}
			typedAllocSites++
			if len(ce.Args) != 3 {
				typedAllocOK = false
				return true
			}
			a0 := strings.Join(strings.Fields(src(ce.Args[0])), "")
			a1, a2 := src(ce.Args[1]), src(ce.Args[2])
			if a0 == "l" && a1 == "1" && a2 == "0" {
				return true
			}
			a0 = strings.TrimPrefix(a0, "l*")
			x := strings.TrimSuffix(a0, ".Size")
			if x == a0 || a1 != x+".Align" || a2 != x+".MallocAbiType" {
				typedAllocOK = false
			}
			return true
		})
	}
	ntt := findFunc(rf, "newTType")
	typedAllocOK = typedAllocOK && contains(ntt, `switch t\.RT\.Kind\(\) \{ case reflect\.Array, reflect\.Map, reflect\.Ptr, reflect\.Slice, reflect\.String, reflect\.Struct: t\.MallocAbiType = rtTypePtr\(t\.RT\)`) &&
		contains(findMethod(rf, "tDecoder", "Malloc"), `if n > defaultDecoderMemSize/8 \|\| abiType != 0 \{[^}]*return mallocgc\(uintptr\(n\), abiType, abiType != 0\) \} return d\.s\.Malloc\(n, align\)`)
	zeroTests := 0
	for _, fd := range []*ast.FuncDecl{dec, dty} {
		if fd != nil && len(fd.Body.List) > 0 && contains(fd.Body.List[0], `^if maxdepth == 0 \{ return 0, errDepthLimitExceeded \}$`) {
			zeroTests++
		}
	}
	w("  recursionDecrements := %v\n  recursiveCalls := %d\n  depthZeroTests := %d\n", decrements, nRec, zeroTests)
	w("  allocAfterSizeCheck := %v\n  allocSitesSized := %d\n", allocOK, allocSites)
	// D26: in the field loop the pointee of an optional field is allocated (and stored into the destination)
	// only after the bytes of a fixed-size value are known to be there; it is the only mallocIfPointer there
	w("  pointeeAfterLengthCheck := %v\n", contains(dec, `t := f\.Type if t\.FixedSize > 0 && len\(b\)-i < t\.FixedSize \{ return i, io\.ErrShortBuffer \} p = d\.mallocIfPointer\(t, p\) if t\.FixedSize > 0 \{ i \+= decodeFixedSizeTypes\(t\.T, b\[i:\], p\) \}`) &&
		strings.Count(src(dec), "mallocIfPointer(") == 1)
	w("  typedAllocOK := %v\n  typedAllocSites := %d\n", typedAllocOK, typedAllocSites)
	// fingerprints of the control structure of the functions the hand-written model describes
	var skDump strings.Builder
	dnames := []string{"tDecoder.Decode", "tDecoder.decodeType", "decodeStringNoCopy", "decodeFixedSizeTypes", "skipUnknown", "tDecoder.mallocIfPointer", "tDecoder.Malloc"}
	dfds := []*ast.FuncDecl{dec, dty, findFunc(rf, "decodeStringNoCopy"), findFunc(rf, "decodeFixedSizeTypes"), findFunc(rf, "skipUnknown"), findMethod(rf, "tDecoder", "mallocIfPointer"), findMethod(rf, "tDecoder", "Malloc")}
	w("  decoderSkeleton := \"%s\"\n", skeletonHash("decoder", dfds, dnames, &skDump))
	enames := []string{"appendStruct", "appendAny", "tType.EncodedSize", "tType.encodedMapSize", "tType.encodedListSize", "appendListHeader", "appendMapHeader", "Append", "EncodedSize"}
	efds := []*ast.FuncDecl{findFunc(rf, "appendStruct"), findFunc(rf, "appendAny"), findMethod(rf, "tType", "EncodedSize"), findMethod(rf, "tType", "encodedMapSize"), findMethod(rf, "tType", "encodedListSize"), findFunc(rf, "appendListHeader"), findFunc(rf, "appendMapHeader"), findFunc(rf, "Append"), findFunc(rf, "EncodedSize")}
	w("  encoderSkeleton := \"%s\"\n", skeletonHash("encoder", efds, enames, &skDump))
	rnames := []string{"DoResolveFields", "lookupStructTag", "trimSpaces", "doParseType", "doParseSlice", "doMatchStruct", "readToken", "newStructDesc", "tField.fromDefsField", "isident0", "isident", "isKeyword", "isTypeKeyword"}
	rfds := []*ast.FuncDecl{findFunc(df, "DoResolveFields"), findFunc(df, "lookupStructTag"), findFunc(df, "trimSpaces"), findFunc(df, "doParseType"), findFunc(df, "doParseSlice"), findFunc(df, "doMatchStruct"), findFunc(df, "readToken"), findFunc(rf, "newStructDesc"), findMethod(rf, "tField", "fromDefsField"), findFunc(df, "isident0"), findFunc(df, "isident"), findFunc(df, "isKeyword"), findFunc(df, "isTypeKeyword")}
	w("  resolverSkeleton := \"%s\"\n", skeletonHash("resolver", rfds, rnames, &skDump))
	// the descriptor tables every codec theorem takes for granted (field index by id, required ids,
	// offsets, per-field flags and fixed sizes, the type node's tag / size / alignment / element nodes):
	// full normalised text of the declarations and of the functions that fill them in
	{
		h := sha256.New()
		fmt.Fprintf(&skDump, "-- descTable\n")
		add := func(label string, n ast.Node) {
			t := "<missing>"
			if n != nil && !(reflect_isNil(n)) {
				t = strings.Join(strings.Fields(src(n)), " ")
			}
			fmt.Fprintf(h, "%s\n%s\n--\n", label, t)
			fmt.Fprintf(&skDump, "--   %s: %s\n", label, t)
		}
		for _, tn := range []string{"structDesc", "tField", "tType"} {
			var spec ast.Node
			for _, f := range rf.sorted() {
				for _, d := range f.Decls {
					if gd, ok := d.(*ast.GenDecl); ok && gd.Tok == token.TYPE {
						for _, sp := range gd.Specs {
							if ts := sp.(*ast.TypeSpec); ts.Name.Name == tn {
								spec = ts
							}
						}
					}
				}
			}
			add("type "+tn, spec)
		}
		add("structDesc.fromDefsFields", findMethod(rf, "structDesc", "fromDefsFields"))
		add("tField.fromDefsField", findMethod(rf, "tField", "fromDefsField"))
		add("structDesc.GetField", findMethod(rf, "structDesc", "GetField"))
		add("newTType", findFunc(rf, "newTType"))
		w("  descTableSkeleton := \"%s\"\n", fmt.Sprintf("%x", h.Sum(nil))[:24])
	}
	// the remainder: every function and package-level declaration of the two packages that no fingerprint,
	// table translation or protocol fact above looks at, as full normalised text — small predicates and
	// helpers the model mirrors by hand (R4 changed isident / isident0, which nothing watched)
	{
		covered := map[string]bool{}
		for _, n := range append(append(append([]string{}, dnames...), enames...), rnames...) {
			covered[n] = true
		}
		for _, n := range []string{"structDesc.fromDefsFields", "structDesc.GetField", "newTType", "createStructDesc",
			"newStructDescAndPrefetch", "prefetchSubStructDesc", "fetchStructDesc", "rollbackBuild",
			"unknownFields.Add", "unknownFields.Reset", "unknownFields.Size", "unknownFields.Copy"} {
			covered[n] = true
		}
		residual := func(files pkgFiles) string {
			h := sha256.New()
			for _, f := range files.sorted() {
				for _, d := range f.Decls {
					switch x := d.(type) {
					case *ast.FuncDecl:
						name := x.Name.Name
						if x.Recv != nil && len(x.Recv.List) > 0 {
							name = strings.TrimPrefix(src(x.Recv.List[0].Type), "*") + "." + name
						}
						if covered[name] || strings.HasPrefix(name, "appendMap_") || strings.HasPrefix(name, "appendList_") ||
							strings.HasPrefix(name, "Verif") || strings.HasPrefix(name, "NewVerif") {
							continue
						}
						fmt.Fprintf(h, "func %s\n%s\n--\n", name, strings.Join(strings.Fields(src(x)), " "))
					case *ast.GenDecl:
						if x.Tok == token.IMPORT {
							continue
						}
						fmt.Fprintf(h, "decl\n%s\n--\n", strings.Join(strings.Fields(src(x)), " "))
					}
				}
			}
			return fmt.Sprintf("%x", h.Sum(nil))[:24]
		}
		rfNoHooks := pkgFiles{}
		for n, f := range rf {
			if n != "verif_hooks.go" {
				rfNoHooks[n] = f
			}
		}
		w("  residualDefsSkeleton := \"%s\"\n  residualReflectSkeleton := \"%s\"\n", residual(df), residual(rfNoHooks))
	}
	skeletonText = skDump.String()
	top := findFunc(rf, "Decode")
	w("  topLevelUsesLimit := %v\n", contains(top, `d\.Decode\(b, rv\.UnsafePointer\(\), sd, maxDepthLimit\)`))
	// C08
	csd := findFunc(rf, "createStructDesc")
	lockFirst := false
	if csd != nil {
		t := strings.Join(strings.Fields(src(csd.Body)), " ")
		li := strings.Index(t, "sdsmu.Lock()")
		ui := strings.Index(t, "defer sdsmu.Unlock()")
		bi := strings.Index(t, "newStructDescAndPrefetch(")
		si := strings.Index(t, "sds.Set(")
		gi := strings.Index(t, "sds.Get(abiType)")
		lockFirst = li >= 0 && ui > li && gi > ui && bi > gi && si > bi
	}
	w("  createLocksRechecksBuildsPublishes := %v\n", lockFirst)
	get := findMethod(rf, "mapStructDesc", "Get")
	w("  getIsReadOnly := %v\n", get != nil && !contains(get, `\.Store\(`) && !contains(get, `\] = `) && contains(get, `\.Load\(\)`))
	set := findMethod(rf, "mapStructDesc", "Set")
	w("  setCopiesThenStores := %v\n", contains(set, `items := make\(\[\]mapStructDescItem, len\(old\), len\(old\)\+1\) copy\(items, old\)`) &&
		!contains(set, `old\[[^\]]*\]\.?\w* = `) && !contains(set, `\(\*p\)\[[^\]]*\]\.?\w* = `) && contains(set, `m\.slots\[bk\]\.Store\(&items\)`))
	// unsynchronised caches are touched only by functions that run under sdsmu
	allowed := map[string]bool{"newTType": true, "newStructDescAndPrefetch": true, "rollbackBuild": true, "fetchStructDesc": true, "createStructDesc": true}
	cachesConfined := true
	sdsSetConfined := true
	for _, f := range rf.sorted() {
		for _, d := range f.Decls {
			fd, ok := d.(*ast.FuncDecl)
			if !ok || fd.Body == nil {
				continue
			}
			if contains(fd.Body, `\b(ttypes|prefetchStructDescCache|buildCached|buildLinked)\b`) && !allowed[fd.Name.Name] {
				cachesConfined = false
			}
			if contains(fd.Body, `\bsds\.Set\(`) && fd.Name.Name != "createStructDesc" {
				sdsSetConfined = false
			}
		}
	}
	w("  cachesConfinedToLockedPath := %v\n  publishOnlyInCreate := %v\n", cachesConfined, sdsSetConfined)
	// callers of the locked-path functions: newStructDescAndPrefetch is reached only from createStructDesc / itself / fetchStructDesc
	callersOK := true
	for _, f := range rf.sorted() {
		for _, d := range f.Decls {
			fd, ok := d.(*ast.FuncDecl)
			if !ok || fd.Body == nil {
				continue
			}
			if contains(fd.Body, `\bnewStructDescAndPrefetch\(`) && !map[string]bool{"createStructDesc": true, "fetchStructDesc": true}[fd.Name.Name] {
				callersOK = false
			}
			if contains(fd.Body, `\bfetchStructDesc\(`) && !map[string]bool{"prefetchSubStructDesc": true, "fetchStructDesc": true}[fd.Name.Name] {
				callersOK = false
			}
			if contains(fd.Body, `\bprefetchSubStructDesc\(`) && fd.Name.Name != "newStructDescAndPrefetch" {
				callersOK = false
			}
			if contains(fd.Body, `\bnewTType\(`) && !map[string]bool{"newTType": true, "fromDefsField": true}[fd.Name.Name] {
				callersOK = false
			}
		}
	}
	w("  buildPathCallersOK := %v\n", callersOK)
	// pooled scratch: Get and Put pairs
	poolOK := dec != nil && contains(dec, `bs = bitsetPool\.Get\(\)\.\(\*bitset\) defer bitsetPool\.Put\(bs\)`) &&
		contains(dec, `ufs = unknownFieldsPool\.Get\(\)\.\(\*unknownFields\) defer unknownFieldsPool\.Put\(ufs\) ufs\.Reset\(\)`) &&
		contains(dec, `for _, f := range sd\.requiredFieldIDs \{ bs\.unset\(f\) \}`)
	w("  scratchPooledAndCleared := %v\n", poolOK)
	w("  rollbackOnFailedBuild := %v\n", contains(csd, `built := false defer func\(\) \{ if !built \{ rollbackBuild\(\) \} \}\(\) sd, err := newStructDescAndPrefetch\(rt\) if err != nil \{ return nil, err \} built = true sds\.Set\(abiType, sd\)`))
	// the build-cache state machine of BuildCache.lean, statement by statement
	rb := findFunc(rf, "rollbackBuild")
	nsp := findFunc(rf, "newStructDescAndPrefetch")
	fsd := findFunc(rf, "fetchStructDesc")
	psd := findFunc(rf, "prefetchSubStructDesc")
	proto := contains(csd, `if sd := sds\.Get\(abiType\); sd != nil \{ return sd, nil \} buildCached, buildLinked = buildCached\[:0\], buildLinked\[:0\] built := false defer func\(\) \{ if !built \{ rollbackBuild\(\) \} \}\(\) sd, err := newStructDescAndPrefetch\(rt\) if err != nil \{ return nil, err \} built = true sds\.Set\(abiType, sd\)`) &&
		contains(rb, `for _, t := range buildCached \{ delete\(prefetchStructDescCache, t\) \} for _, t := range buildLinked \{ t\.Sd = nil \}`) &&
		contains(nsp, `\{ if sd := prefetchStructDescCache\[t\]; sd != nil \{ return sd, nil \} sd, err := newStructDesc\(t\) if err != nil \{ return nil, err \} prefetchStructDescCache\[t\] = sd buildCached = append\(buildCached, t\) if err := prefetchSubStructDesc\(sd\); err != nil \{ delete\(prefetchStructDescCache, t\) return nil, err \} return sd, nil \}`) &&
		contains(fsd, `if t\.T == tMAP \{ err := fetchStructDesc\(t\.K\) if err != nil \{ return err \} return fetchStructDesc\(t\.V\) \} if t\.T == tLIST \|\| t\.T == tSET \{ return fetchStructDesc\(t\.V\) \} if t\.T != tSTRUCT \|\| t\.Sd != nil \{ return nil \} sd, err := newStructDescAndPrefetch\(t\.RT\) if err != nil \{ return err \} t\.Sd = sd buildLinked = append\(buildLinked, t\) return nil`) &&
		contains(psd, `for i := range d\.fields \{ f := d\.fields\[i\] switch f\.Type\.T \{ case tSTRUCT, tMAP, tLIST, tSET: if err := fetchStructDesc\(f\.Type\); err != nil \{ return err \} \} \} return nil`)
	w("  buildProtocol := %v\n", proto)
	// the type-node cache of TypeKey.lean: key = (annotation text, Go type), lookup before build, store
	// right after allocation; `Type.String()` prints what the model's tyChars prints
	tstr := findMethod(df, "Type", "String")
	var keyDecl ast.Node
	for _, f := range rf.sorted() {
		for _, d := range f.Decls {
			if gd, ok := d.(*ast.GenDecl); ok && gd.Tok == token.TYPE {
				for _, sp := range gd.Specs {
					if ts := sp.(*ast.TypeSpec); ts.Name.Name == "ttypesK" {
						keyDecl = ts
					}
				}
			}
		}
	}
	nttF := findFunc(rf, "newTType")
	keyOK := keyDecl != nil && contains(keyDecl, `^ttypesK struct \{ T string S reflect\.Type \}$`) &&
		contains(nttF, `\{ k := ttypesK\{T: x\.String\(\), S: x\.S\} if t := ttypes\[k\]; t != nil \{ return t \} t := &tType\{\} ttypes\[k\] = t `) &&
		contains(tstr, `switch t\.T \{ case T_bool: return "bool" case T_i8: return "i8" case T_double: return "double" case T_i16: return "i16" case T_i32: return "i32" case T_i64: return "i64" case T_string: return "string" case T_struct: return t\.S\.Name\(\) case T_map: return fmt\.Sprintf\("map<%s:%s>", t\.K\.String\(\), t\.V\.String\(\)\) case T_set: return fmt\.Sprintf\("set<%s>", t\.V\.String\(\)\) case T_list: return fmt\.Sprintf\("list<%s>", t\.V\.String\(\)\) case T_enum: return "enum" case T_binary: return "binary" case T_pointer: return "\*" \+ t\.V\.String\(\) default:`)
	nKeyUses := 0
	for _, f := range rf {
		ast.Inspect(f, func(n ast.Node) bool {
			if ie, ok := n.(*ast.IndexExpr); ok && src(ie.X) == "ttypes" {
				nKeyUses++
			}
			return true
		})
	}
	w("  typeNodeCacheKeyed := %v\n", keyOK && nKeyUses == 2)
	// the unknown-field index of UnknownIdx.lean, statement by statement
	ufAdd := findMethod(rf, "unknownFields", "Add")
	ufReset := findMethod(rf, "unknownFields", "Reset")
	ufSize := findMethod(rf, "unknownFields", "Size")
	ufCopy := findMethod(rf, "unknownFields", "Copy")
	nAdd := 0
	for _, f := range rf {
		ast.Inspect(f, func(n ast.Node) bool {
			if ce, ok := n.(*ast.CallExpr); ok && strings.HasSuffix(src(ce.Fun), ".Add") && strings.HasPrefix(src(ce.Fun), "ufs") {
				nAdd++
			}
			return true
		})
	}
	ufOK := contains(ufAdd, `\{ p\.sz \+= sz p\.offs = append\(p\.offs, unknownFieldIdx\{off: off, sz: sz\}\) \}$`) &&
		contains(ufReset, `\{ p\.sz = 0 p\.offs = p\.offs\[:0\] \}$`) &&
		contains(ufSize, `\{ return p\.sz \}$`) &&
		contains(ufCopy, `\{ sz := p\.Size\(\) data := mallocgc\(uintptr\(sz\), 0, false\) ret := unsafe\.Slice\(\(\*byte\)\(data\), sz\) off := 0 for _, x := range p\.offs \{ copy\(ret\[off:\], b\[x\.off:x\.off\+x\.sz\]\) off \+= x\.sz \} return ret \}$`) &&
		nAdd == 1 && contains(dec, `n, err := skipUnknown\(b\[i:\], tp\) if err != nil \{[^}]*\} if ufs != nil \{ ufs\.Add\(i-fieldHeaderLen, n\+fieldHeaderLen\) \} i \+= n continue`) &&
		contains(dec, `if ufs != nil && ufs\.Size\(\) > 0 \{ \*\(\*\[\]byte\)\(unsafe\.Add\(base, sd\.unknownFieldsOffset\)\) = ufs\.Copy\(b\) \} return i, nil \}$`) &&
		contains(dec, `fid := binary\.BigEndian\.Uint16\(b\[i:\]\) i \+= 2`) && c["fieldHeaderLen"] == 3
	w("  unknownIndexProtocol := %v\n", ufOK)
	// C08: on the encode / size / decode paths the shared descriptors (type nodes, struct and field
	// descriptors) are read-only: no assignment to, increment of, or address taken of a field reached
	// from a descriptor
	hotFiles := map[string]bool{"decoder.go": true, "append.go": true, "append_list.go": true, "append_list_fast.go": true,
		"append_map.go": true, "append_map_fast.go": true, "reflect.go": true}
	hotMethods := map[string]bool{"EncodedSize": true, "encodedMapSize": true, "encodedListSize": true, "Equal": true}
	var descWrites []string
	for name, f := range rf {
		for _, d := range f.Decls {
			fd, ok := d.(*ast.FuncDecl)
			if !ok || fd.Body == nil {
				continue
			}
			if !hotFiles[name] && !(fd.Recv != nil && hotMethods[fd.Name.Name]) {
				continue
			}
			// the two selectors of the per-type encode routine run while the node is built (under
			// the build lock): they must be reachable from newTType only
			if fd.Name.Name == "updateListAppendFunc" || fd.Name.Name == "updateMapAppendFunc" {
				continue
			}
			descWrites = append(descWrites, descriptorWrites(fd)...)
		}
	}
	for name, f := range rf {
		for _, d := range f.Decls {
			if fd, ok := d.(*ast.FuncDecl); ok && fd.Body != nil && fd.Name.Name != "newTType" &&
				contains(fd.Body, `\bupdate(List|Map)AppendFunc\(`) {
				descWrites = append(descWrites, fmt.Sprintf("\"%s:%s calls the node-building selector\"", name, fd.Name.Name))
			}
		}
	}
	// C16: the encode / size functions write the output buffer `b` and their own locals only
	encFiles := map[string]bool{"append.go": true, "append_list.go": true, "append_list_fast.go": true,
		"append_map.go": true, "append_map_fast.go": true}
	var encWrites []string
	for name, f := range rf {
		for _, d := range f.Decls {
			fd, ok := d.(*ast.FuncDecl)
			if !ok || fd.Body == nil {
				continue
			}
			isSize := fd.Recv != nil && hotMethods[fd.Name.Name]
			isHelper := name == "utils.go" && strings.HasPrefix(fd.Name.Name, "appendUint")
			if !(encFiles[name] || isSize || isHelper) || fd.Name.Name == "updateListAppendFunc" || fd.Name.Name == "updateMapAppendFunc" || fd.Name.Name == "init" || fd.Name.Name == "registerListAppendFunc" || fd.Name.Name == "registerMapAppendFunc" {
				continue
			}
			encWrites = append(encWrites, nonLocalWrites(fd)...)
		}
	}
	// C16, decode side: the decoder never stores into its input `b` (nor copies / appends into it)
	var inWrites []string
	for name, f := range rf {
		if name != "decoder.go" && name != "unknownfields.go" {
			continue
		}
		for _, d := range f.Decls {
			fd, ok := d.(*ast.FuncDecl)
			if !ok || fd.Body == nil {
				continue
			}
			rooted := func(e ast.Expr) bool {
				for {
					switch x := e.(type) {
					case *ast.IndexExpr:
						e = x.X
						continue
					case *ast.SliceExpr:
						e = x.X
						continue
					case *ast.ParenExpr:
						e = x.X
						continue
					case *ast.Ident:
						return x.Name == "b" || x.Name == "buf"
					}
					return false
				}
			}
			ast.Inspect(fd.Body, func(n ast.Node) bool {
				switch x := n.(type) {
				case *ast.AssignStmt:
					for _, l := range x.Lhs {
						if _, isId := l.(*ast.Ident); !isId && rooted(l) {
							inWrites = append(inWrites, fmt.Sprintf("\"%s:assign %s\"", fd.Name.Name, strings.Join(strings.Fields(src(l)), " ")))
						}
					}
				case *ast.CallExpr:
					if id, ok := x.Fun.(*ast.Ident); ok && (id.Name == "append" || id.Name == "copy") && len(x.Args) > 0 && rooted(x.Args[0]) {
						inWrites = append(inWrites, fmt.Sprintf("\"%s:%s %s\"", fd.Name.Name, id.Name, strings.Join(strings.Fields(src(x)), " ")))
					}
				}
				return true
			})
		}
	}
	sort.Strings(inWrites)
	w("  decodeInputWriteSites := %d\n  decodeInputWriteSiteList := [%s]\n", len(inWrites), strings.Join(inWrites, ", "))
	sort.Strings(encWrites)
	w("  encodeForeignWriteSites := %d\n  encodeForeignWriteSiteList := [%s]\n", len(encWrites), strings.Join(encWrites, ", "))
	sort.Strings(descWrites)
	w("  descriptorWriteSites := %d\n  descriptorWriteSiteList := [%s]\n", len(descWrites), strings.Join(descWrites, ", "))
	// C08 / C07: every store into package-level state of internal/reflect and internal/defs (outside init)
	shared := append(sharedWrites("reflect", rf), sharedWrites("defs", df)...)
	sort.Strings(shared)
	w("  sharedWriteSiteList := [%s]\n", strings.Join(shared, ", "))
	// C18 escape facts
	hot, allHeap := escapeFacts(*repo, rf)
	w("  hotPathHeapSites := %d\n  hotPathHeapSiteList := [%s]\n  escapeAnalysisRan := %v\n", len(hot), strings.Join(hot, ", "), allHeap >= 0)
	w("}\n\n/- control-structure skeletons behind the three fingerprints (for diffing; not read by Lean):\n%s-/\n\nend Frugal.Generated\n", strings.ReplaceAll(skeletonText, "-/", "- /"))

	if *out == "" {
		fmt.Print(g.String())
		return
	}
	old, _ := os.ReadFile(*out)
	if string(old) != g.String() {
		must(os.WriteFile(*out, []byte(g.String()), 0o644))
		fmt.Println("extract: wrote", *out)
	} else {
		fmt.Println("extract: unchanged", *out)
	}
}

// skeleton: the control structure of a function — guards, switches, loops, returns and the
// sequence of calls — as a list of normalised lines. The hand-written Lean model of the function was
// written from (and validated against) exactly this structure; its fingerprint is an obligation.
func skeleton(fd *ast.FuncDecl) []string {
	if fd == nil || fd.Body == nil {
		return []string{"<missing>"}
	}
	norm := func(n ast.Node) string { return strings.Join(strings.Fields(src(n)), " ") }
	var out []string
	exits := func(b *ast.BlockStmt) string {
		if b == nil || len(b.List) == 0 {
			return ""
		}
		switch l := b.List[len(b.List)-1].(type) {
		case *ast.ReturnStmt:
			return " => return"
		case *ast.BranchStmt:
			return " => " + l.Tok.String()
		case *ast.ExprStmt:
			if ce, ok := l.X.(*ast.CallExpr); ok && src(ce.Fun) == "panic" {
				return " => panic"
			}
		}
		return ""
	}
	ast.Inspect(fd.Body, func(n ast.Node) bool {
		switch x := n.(type) {
		case *ast.IfStmt:
			init := ""
			if x.Init != nil {
				init = norm(x.Init) + "; "
			}
			out = append(out, "if "+init+norm(x.Cond)+exits(x.Body))
		case *ast.SwitchStmt:
			t := ""
			if x.Tag != nil {
				t = norm(x.Tag)
			}
			out = append(out, "switch "+t)
		case *ast.TypeSwitchStmt:
			out = append(out, "typeswitch")
		case *ast.CaseClause:
			var cs []string
			for _, e := range x.List {
				cs = append(cs, norm(e))
			}
			out = append(out, "case "+strings.Join(cs, ","))
		case *ast.ForStmt:
			c := ""
			if x.Cond != nil {
				c = norm(x.Cond)
			}
			out = append(out, "for "+c)
		case *ast.RangeStmt:
			out = append(out, "range "+norm(x.X))
		case *ast.ReturnStmt:
			var rs []string
			for _, e := range x.Results {
				rs = append(rs, norm(e))
			}
			out = append(out, "return "+strings.Join(rs, ", "))
		case *ast.CallExpr:
			out = append(out, "call "+norm(x.Fun))
		case *ast.DeferStmt:
			out = append(out, "defer")
		case *ast.FuncLit:
			out = append(out, "funclit")
		}
		return true
	})
	return out
}

func skeletonHash(label string, fds []*ast.FuncDecl, names []string, dump *strings.Builder) string {
	h := sha256.New()
	for i, fd := range fds {
		lines := skeleton(fd)
		fmt.Fprintf(dump, "-- %s / %s\n", label, names[i])
		for _, l := range lines {
			fmt.Fprintf(h, "%s\n", l)
			fmt.Fprintf(dump, "--   %s\n", l)
		}
		fmt.Fprintf(h, "--\n")
	}
	return fmt.Sprintf("%x", h.Sum(nil))[:24]
}

// descriptorWrites: places in fd where a field reached from a shared descriptor (a parameter, receiver
// or local of type *tType / *structDesc / *tField) is assigned, incremented, or has its address taken
func descriptorWrites(fd *ast.FuncDecl) []string {
	isDescType := func(e ast.Expr) bool {
		t := src(e)
		return t == "*tType" || t == "*structDesc" || t == "*tField"
	}
	roots := map[string]bool{}
	addFields := func(fl *ast.FieldList) {
		if fl == nil {
			return
		}
		for _, f := range fl.List {
			if isDescType(f.Type) {
				for _, n := range f.Names {
					roots[n.Name] = true
				}
			}
		}
	}
	addFields(fd.Recv)
	addFields(fd.Type.Params)
	// the root identifier of a selector / index / deref chain and the number of selectors in it
	var chain func(e ast.Expr) (string, int)
	chain = func(e ast.Expr) (string, int) {
		switch x := e.(type) {
		case *ast.Ident:
			return x.Name, 0
		case *ast.SelectorExpr:
			r, n := chain(x.X)
			return r, n + 1
		case *ast.IndexExpr:
			return chain(x.X)
		case *ast.StarExpr:
			return chain(x.X)
		case *ast.ParenExpr:
			return chain(x.X)
		case *ast.CallExpr:
			if se, ok := x.Fun.(*ast.SelectorExpr); ok && se.Sel.Name == "GetField" {
				return chain(se.X)
			}
		}
		return "", 0
	}
	derives := func(e ast.Expr) bool {
		if ue, ok := e.(*ast.UnaryExpr); ok && ue.Op == token.AND {
			e = ue.X
		}
		r, n := chain(e)
		if !roots[r] {
			return false
		}
		if ce, ok := e.(*ast.CallExpr); ok {
			_ = ce
			return true // GetField
		}
		if n == 0 {
			return true
		}
		last := e
		for {
			if ie, ok := last.(*ast.IndexExpr); ok {
				last = ie.X
				continue
			}
			break
		}
		if se, ok := last.(*ast.SelectorExpr); ok {
			switch se.Sel.Name {
			case "K", "V", "Sd", "Type", "fields":
				return true
			}
		}
		return false
	}
	var out []string
	site := func(kind string, e ast.Expr) {
		out = append(out, fmt.Sprintf("\"%s:%s %s\"", fd.Name.Name, kind, strings.Join(strings.Fields(src(e)), " ")))
	}
	ast.Inspect(fd.Body, func(n ast.Node) bool {
		switch x := n.(type) {
		case *ast.AssignStmt:
			if x.Tok == token.DEFINE {
				for i, l := range x.Lhs {
					if id, ok := l.(*ast.Ident); ok && i < len(x.Rhs) && len(x.Lhs) == len(x.Rhs) && derives(x.Rhs[i]) {
						roots[id.Name] = true
					}
				}
				return true
			}
			for _, l := range x.Lhs {
				if r, k := chain(l); roots[r] && k > 0 {
					site("assign", l)
				}
			}
		case *ast.IncDecStmt:
			if r, k := chain(x.X); roots[r] && k > 0 {
				site("incdec", x.X)
			}
		case *ast.UnaryExpr:
			if x.Op == token.AND {
				if r, k := chain(x.X); roots[r] && k > 0 && !derives(x) {
					site("addr", x.X)
				}
			}
		}
		return true
	})
	return out
}

// nonLocalWrites: statements of fd that can write memory other than the output buffer `b` and the
// function's own local variables: an assignment / inc-dec whose left-hand side is not a plain
// identifier or an element of `b`, and an `append` whose first argument is not `b`
func nonLocalWrites(fd *ast.FuncDecl) []string {
	var out []string
	site := func(kind string, e ast.Node) {
		out = append(out, fmt.Sprintf("\"%s:%s %s\"", fd.Name.Name, kind, strings.Join(strings.Fields(src(e)), " ")))
	}
	okLHS := func(e ast.Expr) bool {
		switch x := e.(type) {
		case *ast.Ident:
			return true
		case *ast.IndexExpr:
			if id, ok := x.X.(*ast.Ident); ok && id.Name == "b" {
				return true
			}
		}
		return false
	}
	ast.Inspect(fd.Body, func(n ast.Node) bool {
		switch x := n.(type) {
		case *ast.AssignStmt:
			for _, l := range x.Lhs {
				if !okLHS(l) {
					site("assign", l)
				}
			}
		case *ast.IncDecStmt:
			if !okLHS(x.X) {
				site("incdec", x.X)
			}
		case *ast.CallExpr:
			if id, ok := x.Fun.(*ast.Ident); ok && (id.Name == "append" || id.Name == "copy") && len(x.Args) > 0 {
				if a, ok := x.Args[0].(*ast.Ident); !ok || a.Name != "b" {
					site(id.Name, x)
				}
			}
		}
		return true
	})
	return out
}

// sharedWrites: "pkg/file:func writes var" for every assignment, increment or delete whose target is rooted
// in a package-level variable (not shadowed by a local of the function), outside init functions and the
// build-tagged hooks.  Syntactic: stores through an alias or inside a callee of another package are not seen.
func sharedWrites(pkg string, files pkgFiles) []string {
	globals := map[string]bool{}
	for _, f := range files {
		for _, d := range f.Decls {
			if gd, ok := d.(*ast.GenDecl); ok && gd.Tok == token.VAR {
				for _, sp := range gd.Specs {
					for _, n := range sp.(*ast.ValueSpec).Names {
						globals[n.Name] = true
					}
				}
			}
		}
	}
	seen := map[string]bool{}
	var out []string
	for name, f := range files {
		if name == "verif_hooks.go" {
			continue
		}
		for _, d := range f.Decls {
			fd, ok := d.(*ast.FuncDecl)
			if !ok || fd.Body == nil || fd.Name.Name == "init" {
				continue
			}
			locals := map[string]bool{}
			addFields := func(fl *ast.FieldList) {
				if fl == nil {
					return
				}
				for _, fld := range fl.List {
					for _, n := range fld.Names {
						locals[n.Name] = true
					}
				}
			}
			addFields(fd.Recv)
			addFields(fd.Type.Params)
			addFields(fd.Type.Results)
			ast.Inspect(fd.Body, func(n ast.Node) bool {
				switch x := n.(type) {
				case *ast.AssignStmt:
					if x.Tok == token.DEFINE {
						for _, l := range x.Lhs {
							if id, ok := l.(*ast.Ident); ok {
								locals[id.Name] = true
							}
						}
					}
				case *ast.RangeStmt:
					if x.Tok == token.DEFINE {
						for _, e := range []ast.Expr{x.Key, x.Value} {
							if id, ok := e.(*ast.Ident); ok {
								locals[id.Name] = true
							}
						}
					}
				case *ast.ValueSpec:
					for _, id := range x.Names {
						locals[id.Name] = true
					}
				case *ast.FuncLit:
					addFields(x.Type.Params)
				}
				return true
			})
			root := func(e ast.Expr) string {
				for {
					switch x := e.(type) {
					case *ast.IndexExpr:
						e = x.X
					case *ast.SelectorExpr:
						e = x.X
					case *ast.StarExpr:
						e = x.X
					case *ast.ParenExpr:
						e = x.X
					case *ast.SliceExpr:
						e = x.X
					case *ast.Ident:
						return x.Name
					default:
						return ""
					}
				}
			}
			site := func(e ast.Expr) {
				r := root(e)
				if r != "" && globals[r] && !locals[r] {
					k := fmt.Sprintf("\"%s/%s:%s writes %s\"", pkg, name, fd.Name.Name, r)
					if !seen[k] {
						seen[k] = true
						out = append(out, k)
					}
				}
			}
			ast.Inspect(fd.Body, func(n ast.Node) bool {
				switch x := n.(type) {
				case *ast.AssignStmt:
					if x.Tok != token.DEFINE {
						for _, l := range x.Lhs {
							site(l)
						}
					}
				case *ast.IncDecStmt:
					site(x.X)
				case *ast.CallExpr:
					if id, ok := x.Fun.(*ast.Ident); ok && id.Name == "delete" && len(x.Args) > 0 {
						site(x.Args[0])
					}
				}
				return true
			})
		}
	}
	return out
}

// reflect_isNil: a typed nil *ast.FuncDecl / *ast.TypeSpec inside an ast.Node interface
func reflect_isNil(n ast.Node) bool {
	switch x := n.(type) {
	case *ast.FuncDecl:
		return x == nil
	case *ast.TypeSpec:
		return x == nil
	}
	return false
}

func mustExpr(s string) ast.Expr {
	e, err := parser.ParseExpr(s)
	if err != nil {
		return &ast.BasicLit{Kind: token.INT, Value: "-1"}
	}
	return e
}

// functions on the steady-state encode / size path
var hotFuncs = map[string]bool{"EncodedSize": true, "Append": true, "appendStruct": true, "appendAny": true,
	"appendListHeader": true, "appendListAny": true, "appendMapHeader": true, "appendMapAnyAny": true,
	"encodedMapSize": true, "encodedListSize": true, "encodedStringSize": true, "Equal": true, "newMapIter": true,
	"Next": true, "maplen": true, "rvWithPtr": true, "rvPtr": true, "appendUint16": true, "appendUint32": true,
	"appendUint64": true, "appendMapBool": true, "getStructDesc": true, "Get": true, "rvTypePtr": true, "checkMapN": true}

func isHot(name string) bool {
	return hotFuncs[name] || strings.HasPrefix(name, "appendMap_") || strings.HasPrefix(name, "appendList_")
}

func escapeFacts(repo string, rf pkgFiles) ([]string, int) {
	cmd := exec.Command("go", "build", "-gcflags=-m", ".")
	cmd.Dir = filepath.Join(repo, "internal/reflect")
	outb, err := cmd.CombinedOutput()
	if err != nil {
		return []string{"\"escape analysis failed\""}, -1
	}
	type span struct {
		file     string
		lo, hi   int
		name     string
	}
	var spans []span
	for fn, f := range rf {
		for _, d := range f.Decls {
			if fd, ok := d.(*ast.FuncDecl); ok && fd.Body != nil {
				spans = append(spans, span{fn, fset.Position(fd.Pos()).Line, fset.Position(fd.End()).Line, fd.Name.Name})
			}
		}
	}
	re := regexp.MustCompile(`^\./([\w.]+):(\d+):\d+: (.*(escapes to heap|moved to heap).*)$`)
	var hot []string
	all := 0
	seen := map[string]bool{}
	for _, ln := range strings.Split(string(outb), "\n") {
		m := re.FindStringSubmatch(strings.TrimSpace(ln))
		if m == nil {
			continue
		}
		all++
		line, _ := strconv.Atoi(m[2])
		for _, sp := range spans {
			if sp.file == m[1] && line >= sp.lo && line <= sp.hi && isHot(sp.name) {
				msg := m[3]
				// error paths: the inlined checkMapN error, "[bug]" panics
				if strings.HasPrefix(msg, "&errors.errorString{...}") || strings.Contains(msg, "[bug]") || strings.HasPrefix(msg, "hackErrMsg escapes") {
					continue
				}
				// reflect.EncodedSize panics with fmt.Sprintf on error paths only
				if (sp.name == "EncodedSize" && sp.file == "reflect.go") && (strings.Contains(msg, "err escapes") || strings.Contains(msg, "... argument") || strings.Contains(msg, "fmt.Sprintf")) {
					continue
				}
				key := fmt.Sprintf("%q", sp.name+": "+msg)
				if !seen[key] {
					seen[key] = true
					hot = append(hot, key)
				}
			}
		}
	}
	sort.Strings(hot)
	return hot, all
}
