#!/bin/bash
# confirm_seed.sh <id>: re-verify a sub-agent's seeded change in its scratch worktree /tmp/wt-<id>:
# the existing suite passes with the patch, the demo fails with it and passes without it.
# Then store the deliverables as /verif/seeded/<id>/.
id=$1; wt=/tmp/wt-$id
export GOFLAGS=-mod=mod GOPROXY=off GOSUMDB=off GOTOOLCHAIN=local
cd $wt || exit 2
lower=$(echo $id | tr A-Z a-z)
rm -f *_demo_test.go
git checkout -q -- . && git clean -fdq -e .seed
git apply .seed/patch.diff || { echo "PATCH-DOES-NOT-APPLY"; exit 3; }
suite=ok
for m in . fuzz tests; do (cd $m && go test -vet=off -count=1 ./... >/tmp/confirm-$id-suite-$$.log 2>&1) || suite=FAIL; done
cp .seed/demo_test.go ${lower}_demo_test.go
go test -vet=off -count=1 -run 'C[0-9][0-9]|TestF[0-9]|TestG[0-9]|TestH[0-9]|TestI[0-9]|TestJ[0-9]|TestK[0-9]|TestL[0-9]|TestM[0-9]|TestN[0-9]|TestO[0-9]|TestP[0-9]|TestQ[0-9]|TestR[0-9]|TestS[0-9]|TestT[0-9]|TestU[0-9]' . >/tmp/confirm-$id-with.log 2>&1; with=$?
git checkout -q -- .
go test -vet=off -count=1 -run 'C[0-9][0-9]|TestF[0-9]|TestG[0-9]|TestH[0-9]|TestI[0-9]|TestJ[0-9]|TestK[0-9]|TestL[0-9]|TestM[0-9]|TestN[0-9]|TestO[0-9]|TestP[0-9]|TestQ[0-9]|TestR[0-9]|TestS[0-9]|TestT[0-9]|TestU[0-9]' . >/tmp/confirm-$id-without.log 2>&1; without=$?
rm -f ${lower}_demo_test.go
echo "$id suite_with_patch=$suite demo_with_patch_rc=$with demo_clean_rc=$without"
if [ "$suite" = ok ] && [ $with -ne 0 ] && [ $without -eq 0 ]; then
  mkdir -p /verif/seeded/$id
  cp .seed/patch.diff .seed/demo_test.go .seed/meta.json /verif/seeded/$id/
  (cd /repo && git apply --check /verif/seeded/$id/patch.diff) && echo "$id CONFIRMED applies-to-/repo"
else
  echo "$id NOT CONFIRMED"; tail -5 /tmp/confirm-$id-with.log /tmp/confirm-$id-without.log
fi
